"""Contracts for concepts/lattice_members.py: order/relation predicates (C08), binary join/meet (C07)."""
from z3 import And, BoolVal, Int, Not, Or

from pyvc.bits import bit, band, bor
from pyvc.engine import truthy, IntV, BoolV
from contracts.ctxtheory import Ctx
from contracts.latinv import Lat, context_obj
from contracts.registry import Unit, register


def _two_concepts(path, C, L):
    lat = L.lattice_obj(context_obj(C))
    i1, i2 = Int('i1'), Int('i2')
    path.assume(And(0 <= i1, i1 < L.N, 0 <= i2, i2 < L.N))
    return lat, L.concept(i1, lat), L.concept(i2, lat), i1, i2


def _pred_unit(name, spec):
    """spec(C, e1, e2) -> formula that the truthiness of the result must equal (taken from the C08 statement)."""
    def make():
        C = Ctx()
        L = Lat(C)
        axioms = C.axioms() + L.facts()

        def harness(path):
            lat, c1, c2, i1, i2 = _two_concepts(path, C, L)
            env = {'self': c1, 'other': c2}

            def finish(path, env, outcome):
                kind, val = outcome
                if kind != 'return':
                    path.oblige('post/no-exception', 'post', BoolVal(False))
                    return
                e1, e2 = L.ext(i1), L.ext(i2)
                path.oblige('post/truthiness', 'post', truthy(val) == spec(C, e1, e2))
            return env, {'globals': __import__('contracts.lib', fromlist=['builtins']).builtins()}, finish
        return axioms, harness
    return make


def _share(C, a, b):
    return Not(C.sets.disjoint(a, b))


PREDS = {
    # x <= y iff extent(x) is a subset of extent(y)
    'OrderableMixin.implies': lambda C, a, b: C.sets.subset(a, b),
    'OrderableMixin.subsumes': lambda C, a, b: C.sets.subset(b, a),
    'OrderableMixin.properly_implies': lambda C, a, b: And(C.sets.subset(a, b), a != b),
    'OrderableMixin.properly_subsumes': lambda C, a, b: And(C.sets.subset(b, a), a != b),
    # incompatible iff no object lies in both extents
    'RelationsMixin.incompatible_with': lambda C, a, b: C.sets.disjoint(a, b),
    # complement iff additionally the extents together contain every object
    'RelationsMixin.complement_of': lambda C, a, b: And(C.sets.disjoint(a, b), C.sets.covers(a, b, C.n)),
    # subcontrary iff they share an object and together contain every object
    'RelationsMixin.subcontrary_with': lambda C, a, b: And(_share(C, a, b), C.sets.covers(a, b, C.n)),
    # orthogonal iff they share an object, neither contains the other, and some object lies in neither
    'RelationsMixin.orthogonal_to': lambda C, a, b: And(_share(C, a, b), Not(C.sets.subset(a, b)), Not(C.sets.subset(b, a)),
                                                        Not(C.sets.covers(a, b, C.n))),
}

ALIASES = {'implies': '__le__', 'subsumes': '__ge__', 'properly_implies': '__lt__', 'properly_subsumes': '__gt__'}

for _q, _s in PREDS.items():
    _n = _q.split('.')[1]
    _link = [('type(c).%s' % _n, None)]
    if _n in ALIASES:
        _link.append(('type(c).%s' % ALIASES[_n], None))
    register(Unit('members.' + _n, 'concepts/lattice_members.py', _q, _pred_unit(_n, _s),
                  assumptions=['relative to LatInv (both extents are object sets of the context; supremum extent = all objects)',
                               'A-INT', 'A-EVAL (chained comparison evaluates each operand once)', 'BITS axioms'],
                  linkage=_link))


def _joinmeet_unit(name):
    def make():
        C = Ctx()
        L = Lat(C)
        axioms = C.axioms() + L.facts()

        def harness(path):
            lat, c1, c2, i1, i2 = _two_concepts(path, C, L)
            env = {'self': c1, 'other': c2}
            from contracts.lemmas_z3 import Side, st_meet_closed
            path.assume(st_meet_closed(Side(C, 'O'), L.ext(i1), L.ext(i2)))       # use lemma.meet_closed.O(e1, e2)

            def finish(path, env, outcome):
                kind, val = outcome
                if kind != 'return':
                    path.oblige('post/no-exception', 'post', BoolVal(False))
                    return
                e1, e2 = L.ext(i1), L.ext(i2)
                from contracts.lemmas_z3 import Side, st_meet_closed
                path.assume(st_meet_closed(Side(C, 'O'), e1, e2))       # use lemma.meet_closed.O(e1, e2)
                if name == 'join':
                    # extent = closure of the union of extents; the result is the member object with that extent
                    path.oblige('post/member', 'post', val.ident == L.idx(C.Cl(bor(e1, e2))))
                    path.oblige('post/extent', 'post', val.fields['_extent'].t == C.Cl(bor(e1, e2)))
                else:
                    # extent = intersection of extents
                    path.oblige('post/member', 'post', val.ident == L.idx(band(e1, e2)))
                    path.oblige('post/extent', 'post', val.fields['_extent'].t == band(e1, e2))
            return env, {'globals': __import__('contracts.lib', fromlist=['builtins']).builtins()}, finish
        return axioms, harness
    return make


for _n in ('join', 'meet'):
    register(Unit('members.' + _n, 'concepts/lattice_members.py', 'TransformableMixin.' + _n, _joinmeet_unit(_n),
                  assumptions=['relative to LatInv.1/4 (_mapping is defined exactly on the extents, one member per extent)',
                               'contract of Vectors.double proved in unit matrices.double', 'BITS axioms',
                               'meet: lemma L-MEET (the intersection of two extents is an extent) proved as unit lemma.meet_closed'],
                  linkage=[('type(c).%s' % _n, None), ('type(c).__%s__' % ('or' if _n == 'join' else 'and'), None)]))
