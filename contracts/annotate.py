"""Contract for lattices.Data._annotate (C10: reduced labelling; DESIGN section C10 / LatInv.7).

Abstract state per lattice member i (index in `mapping`'s image): the label container `objects` is in one of the kinds
  default (the class attribute `()`), list, tuple     -- kindO(i) in {0,1,2}
and its content is a strictly increasing sequence of object positions, described by membership inO(i,g) and lastO(i)
(appending g requires g > lastO(i)), which determines the sequence: "in context order".  Same for properties.
  loop 0 (objects, k processed):  inO(i,g) <-> g < k /\\ idx(Cl({g})) = i ;  kindO(i) = 1 iff touched(i) iff some g in it, else 0
  loop 1 (for c in touched, arbitrary order -- A-SET): the converted members have kind 2; order independence: the post holds
          for every iteration order
  loops 2, 3: the same for properties with Dn({p}).
Post (LatInv.7): every object labels exactly its object concept (g in objects(i) <-> Cl({g}) = ext(i)), every property exactly
its attribute concept, labels are tuples, unlabelled members keep the class default ().
"""
from z3 import And, BoolSort, BoolVal, ForAll, Function, If, Implies, Int, IntSort, Ints, MultiPattern, Not, Or

from pyvc import bits
from pyvc.bits import bit
from pyvc.engine import BoolV, FuncV, IntV, IterV, ListV, LoopSpec, NONE, ObjV, SeqV, TermV, TupleV, Unsupported
from contracts import lib
from contracts.ctxtheory import Ctx
from contracts.latinv import Lat
from contracts.lemmas_z3 import Side, use_galois
from contracts.registry import Unit, register

I = IntSort()
B = BoolSort()


def _annotate_unit():
    def make():
        C = Ctx()
        L = Lat(C)
        atom = Function('atomv', I, I)
        h_, k_ = Ints('h k')
        axioms = C.axioms() + L.facts() + [
            ('atom.bits', ForAll([h_, k_], bit(atom(h_), k_) == (k_ == h_), patterns=[bit(atom(h_), k_)])),
            ('atom.nat', ForAll([h_], atom(h_) >= 0, patterns=[atom(h_)])),
        ]

        def harness(path):
            cnt = path.eng.counter
            i_, g_ = Ints('i g')

            def fn(name, *sorts):
                return Function('%s!%d' % (name, next(cnt)), *sorts)
            st = {}
            for ax in ('O', 'P'):
                st['in' + ax] = fn('in' + ax, I, I, B)
                st['last' + ax] = fn('last' + ax, I, I)
                st['kind' + ax] = fn('kind' + ax, I, I)
                path.assume(ForAll([i_, g_], Not(st['in' + ax](i_, g_)), patterns=[st['in' + ax](i_, g_)]))
                path.assume(ForAll([i_], And(st['kind' + ax](i_) == 0, st['last' + ax](i_) == -1), patterns=[st['kind' + ax](i_)]))
            touched = {'set': None, 'axis': None}

            # ---- the label container of member i on axis ax, as a python value
            def container(i, ax):
                o = ObjV('LabelContainer', {}, name='%s[%s]' % (ax, i))
                o.member, o.axis = i, ax
                o.truth_fn = lambda: st['kind' + ax](i) != 0       # default () is falsy; a list/tuple here is never empty

                def append(p, args, kw):
                    x = args[-1]
                    p.oblige('append/container-is-a-list', 'pre@call', st['kind' + ax](i) == 1)
                    add_elem(p, i, ax, x.pos, 1)
                    return NONE
                f = FuncV('list.append', append)
                f.is_method = True
                o.fields['append'] = f
                return o

            def add_elem(p, i, ax, g, kind):
                inn, last, knd = st['in' + ax], st['last' + ax], st['kind' + ax]
                # labels stay in context order: the new position is greater than every position already in the container
                p.oblige('append/in-context-order', 'post', g > last(i))
                in2, last2, kind2 = fn('in' + ax, I, I, B), fn('last' + ax, I, I), fn('kind' + ax, I, I)
                p.assume(ForAll([i_, g_], in2(i_, g_) == Or(And(i_ == i, g_ == g), inn(i_, g_)), patterns=[in2(i_, g_), inn(i_, g_)]))
                p.assume(ForAll([i_], last2(i_) == If(i_ == i, g, last(i_)), patterns=[last2(i_), last(i_)]))
                p.assume(ForAll([i_], kind2(i_) == If(i_ == i, kind, knd(i_)), patterns=[kind2(i_), knd(i_)]))
                st['in' + ax], st['last' + ax], st['kind' + ax] = in2, last2, kind2

            def member(i):
                c = ObjV('Concept', {}, name='member[%s]' % i)
                c.ident = i

                def getattr_(p, o, attr):
                    if attr in ('objects', 'properties'):
                        return container(i, 'O' if attr == 'objects' else 'P')
                    raise Unsupported('member attribute %s' % attr)

                def setattr_(p, o, attr, v):
                    if attr not in ('objects', 'properties'):
                        raise Unsupported('store to member.%s' % attr)
                    ax = 'O' if attr == 'objects' else 'P'
                    knd = st['kind' + ax]
                    if isinstance(v, ListV) and len(v.items) == 1 and getattr(v.items[0], 'pos', None) is not None:
                        # c.objects = [o]: only when the member still has the class default
                        p.oblige('store/list-replaces-default', 'post', knd(i) == 0)
                        add_elem(p, i, ax, v.items[0].pos, 1)
                    elif isinstance(v, ObjV) and getattr(v, 'tuple_of', None) is not None:
                        src = v.tuple_of
                        p.oblige('store/tuple-of-own-list', 'post', And(BoolVal(src.axis == ax), src.member == i, knd(i) == 1))
                        k2 = fn('kind' + ax, I, I)
                        p.assume(ForAll([i_], k2(i_) == If(i_ == i, 2, knd(i_)), patterns=[k2(i_), knd(i_)]))
                        st['kind' + ax] = k2
                    else:
                        raise Unsupported('store of %r to member.%s' % (v, attr))
                c.fields['__getattr__'] = getattr_
                c.fields['__setattr__'] = setattr_
                return c

            def label(ax, g):
                v = TermV(Function('label' + ax, I, seqs_Name())(g))
                v.pos, v.axis = g, ax
                return v

            ctx = ObjV('Context', {}, name='context')
            ctx.fields['objects'] = SeqV(lambda g: label('O', g), C.n, 'context.objects')
            ctx.fields['properties'] = SeqV(lambda g: label('P', g), C.m, 'context.properties')

            def intension(p, args, kw):
                (lst,) = args
                ok = isinstance(lst, ListV) and len(lst.items) == 1 and getattr(lst.items[0], 'axis', None) == 'O' and not kw
                p.oblige('pre@intension/singleton-of-an-object', 'pre@call', BoolVal(ok))
                g = lst.items[0].pos
                r = ObjV('LabelTuple', {}, name='intension')
                r.bits, r.dom = C.Up(atom(g)), 'P'
                use_galois(p, Side(C, 'O'), atom(g))
                return r

            def extension(p, args, kw):
                (a,) = args
                okraw = set(kw) == {'raw'} and isinstance(kw['raw'], BoolV)
                p.oblige('pre@extension/raw', 'pre@call', kw['raw'].t if okraw else BoolVal(False))
                if isinstance(a, ObjV) and getattr(a, 'dom', None) == 'P':
                    B_ = a.bits
                elif isinstance(a, ListV) and len(a.items) == 1 and getattr(a.items[0], 'axis', None) == 'P':
                    B_ = atom(a.items[0].pos)
                else:
                    raise Unsupported('extension of %r' % (a,))
                p.oblige('pre@extension/property-set', 'pre@call', C.is_propset(B_))
                use_galois(p, Side(C, 'P'), B_)
                use_galois(p, Side(C, 'O'), C.Dn(B_))
                return IntV(C.Dn(B_), 'Objects')
            ctx.fields['intension'] = FuncV('Context.intension', intension)
            ctx.fields['extension'] = FuncV('Context.extension', extension)

            def map_get(p, args, kw):
                key = args[-1]
                p.oblige('key@mapping', 'key', And(C.is_objset(key.t), C.Cl(key.t) == key.t))
                return member(L.idx(key.t))
            mapping = ObjV('dict', {'__getitem__': FuncV('dict.__getitem__', map_get)}, name='mapping')

            # ---- touched: a set of members
            def new_set(p, args, kw):
                s = ObjV('set', {}, name='touched')
                s.has = fn('touched', I, B)
                p.assume(ForAll([i_], Not(s.has(i_)), patterns=[s.has(i_)]))

                def add(p2, a2, k2):
                    x = a2[-1]
                    h2 = fn('touched', I, B)
                    p2.assume(ForAll([i_], h2(i_) == Or(i_ == x.ident, s.has(i_)), patterns=[h2(i_), s.has(i_)]))
                    s.has = h2
                    return NONE
                f = FuncV('set.add', add)
                f.is_method = True
                s.fields['add'] = f

                def it(p2, a2, k2):
                    # A-SET: iteration in an arbitrary order = an arbitrary enumeration without repeats of the elements
                    n_ = Int('touched.len!%d' % next(cnt))
                    el = fn('touched.at', I, I)
                    rank = fn('touched.rank', I, I)
                    t_ = Int('t')
                    has = s.has
                    p2.assume(n_ >= 0)
                    p2.assume(ForAll([t_], Implies(And(0 <= t_, t_ < n_), And(has(el(t_)), rank(el(t_)) == t_)), patterns=[el(t_)]))
                    p2.assume(ForAll([i_], Implies(has(i_), And(0 <= rank(i_), rank(i_) < n_, el(rank(i_)) == i_)), patterns=[rank(i_)]))
                    s.enum = (n_, el, rank)
                    return IterV(lambda t: member(el(t)), n_, 'iter(touched)')
                f2 = FuncV('set.__iter__', it)
                f2.is_method = True
                s.fields['__iter__'] = f2
                return s

            def tuple_(p, args, kw):
                (v,) = args
                if isinstance(v, ObjV) and v.cls == 'LabelContainer':
                    r = ObjV('tuple', {}, name='tuple(%s)' % v.name)
                    r.tuple_of = v
                    return r
                raise Unsupported('tuple of %r' % (v,))
            g = dict(lib.builtins(), set=FuncV('set', new_set), tuple=FuncV('tuple', tuple_))

            def spec_in(ax, i, gg, k):
                own = L.idx(C.Cl(atom(gg))) if ax == 'O' else L.idx(C.Dn(atom(gg)))
                return And(0 <= gg, gg < k, own == i)

            def label_inv(ax, cur_touched):
                def inv(e, k):
                    inn, last, knd = st['in' + ax], st['last' + ax], st['kind' + ax]
                    tch = e.val('touched').has
                    return [
                        ('content', ForAll([i_, g_], inn(i_, g_) == spec_in(ax, i_, g_, k), patterns=[inn(i_, g_)])),
                        ('last', ForAll([i_], And(last(i_) < k, last(i_) >= -1), patterns=[last(i_)])),
                        ('last-bounds', ForAll([i_, g_], Implies(inn(i_, g_), g_ <= last(i_)), patterns=[inn(i_, g_)])),
                        ('kind', ForAll([i_], And(Or(knd(i_) == 0, knd(i_) == 1), (knd(i_) == 1) == tch(i_),
                                                  (knd(i_) == 1) == (last(i_) >= 0)), patterns=[knd(i_), tch(i_)])),
                        ('nonempty-has-last', ForAll([i_], Implies(last(i_) >= 0, inn(i_, last(i_))), patterns=[last(i_)])),
                    ]
                return inv

            def havoc_axis(ax):
                def hv(p, env_):
                    st['in' + ax] = fn('in' + ax, I, I, B)
                    st['last' + ax] = fn('last' + ax, I, I)
                    st['kind' + ax] = fn('kind' + ax, I, I)
                    tv = env_['touched']
                    tv.has = fn('touched', I, B)
                return hv

            def convert_inv(ax):
                def inv(e, k):
                    knd = st['kind' + ax]
                    tv = e.val('touched')
                    n_, el, rank = tv.enum
                    k0 = path.ghost['kind0' + ax]
                    return [('converted', ForAll([i_], knd(i_) == If(And(tv.has(i_), rank(i_) < k), 2, k0(i_)), patterns=[knd(i_)]))]
                return inv

            def convert_entry(ax):
                def f(p, env_):
                    p.ghost['kind0' + ax] = st['kind' + ax]
                return f

            def convert_havoc(ax):
                def hv(p, env_):
                    st['kind' + ax] = fn('kind' + ax, I, I)
                return hv
            loops = {'globals': g}
            for n_, ax in ((0, 'O'), (2, 'P')):
                sp = LoopSpec(label_inv(ax, None), ghost_havoc=havoc_axis(ax))
                loops[n_] = sp
                sp2 = LoopSpec(convert_inv(ax), ghost_havoc=convert_havoc(ax))
                sp2.on_entry = convert_entry(ax)
                loops[n_ + 1] = sp2
            # the label atoms are object / property sets of the context
            path.assume(ForAll([g_], Implies(And(0 <= g_, g_ < C.n), C.is_objset(atom(g_))), patterns=[atom(g_)]))
            path.assume(ForAll([g_], Implies(And(0 <= g_, g_ < C.m), C.is_propset(atom(g_))), patterns=[atom(g_)]))

            def finish(path, env_, outcome):
                if outcome[0] != 'return':
                    path.oblige('post/no-exception', 'post', BoolVal(False))
                    return
                for ax, width, what in (('O', C.n, 'object'), ('P', C.m, 'property')):
                    inn, knd = st['in' + ax], st['kind' + ax]
                    path.oblige('post/every-%s-labels-exactly-its-own-concept' % what, 'post',
                                ForAll([i_, g_], inn(i_, g_) == spec_in(ax, i_, g_, width), patterns=[inn(i_, g_)]))
                    path.oblige('post/%s-labels-are-tuples-or-the-class-default' % what, 'post',
                                ForAll([i_], And(Or(knd(i_) == 0, knd(i_) == 2), (knd(i_) == 2) == (st['last' + ax](i_) >= 0)),
                                       patterns=[knd(i_)]))
            return {'context': ctx, 'mapping': mapping}, loops, finish
        return axioms, harness
    return make


def seqs_Name():
    from pyvc.seqs import Name
    return Name


register(Unit('lattices._annotate', 'concepts/lattices.py', 'Data._annotate', _annotate_unit(),
              assumptions=['relative to LatInv.1/4 (mapping defined exactly on the extents)',
                           'contracts of Context.intension/extension (units contexts.intension/extension)',
                           'A-SET: iterating the set `touched` enumerates its elements once each in an arbitrary order; the post holds for every order',
                           'containers abstracted by membership + last appended position (a strictly increasing sequence is determined by its set)'],
              linkage=[('type(lat)._annotate', None)]))
