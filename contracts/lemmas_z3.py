"""Lemma units proved by z3 from the definitions of Up/Dn/Cl (L-GAL, L-LEAST, L-MEET ... of DESIGN 3.3).
They are used in code VCs only through explicit instances (`use lemma`): the functions `use_*` below add
exactly the proved statement, instantiated, to a path."""
from z3 import And, BoolVal, Implies, Int, Ints, Not, Or

from pyvc import bits
from pyvc.bits import bit, band, bor
from contracts.ctxtheory import Ctx
from contracts.registry import Unit, register


def ext(path, a, b):
    """use lemma B9 (extensionality on naturals) for a, b"""
    path.assume(bits.ext_instance(a, b, path.fresh_int('wext')))


class Side:
    """One direction of the Galois connection.  'O': object sets -> property sets (up=Up, cl=Cl);
    'P': property sets -> object sets (up=Dn, cl=Cl')."""

    def __init__(self, C, which):
        self.C, self.which = C, which
        if which == 'O':
            self.dom_in, self.dom_out = C.is_objset, C.is_propset
            self.up, self.cl, self.dn, self.cl2 = C.Up, C.Cl, C.Dn, C.Cl2
        else:
            self.dom_in, self.dom_out = C.is_propset, C.is_objset
            self.up, self.cl, self.dn, self.cl2 = C.Dn, C.Cl2, C.Up, C.Cl


# ---- statements (as python functions so that the proved text and the used instance are the same object)

def st_dom(S, A):
    return Implies(S.dom_in(A), And(S.dom_out(S.up(A)), S.dom_in(S.cl(A))))


def st_cl_def(S, A):
    return Implies(S.dom_in(A), S.cl(A) == S.dn(S.up(A)))


def st_antitone(S, A, A2):
    return Implies(And(S.dom_in(A), S.dom_in(A2), S.C.sets.subset(A, A2)), S.C.sets.subset(S.up(A2), S.up(A)))


def st_extensive(S, A):
    return Implies(S.dom_in(A), S.C.sets.subset(A, S.cl(A)))


def st_up_cl(S, A):
    return Implies(S.dom_in(A), S.up(S.cl(A)) == S.up(A))


def st_idem(S, A):
    return Implies(S.dom_in(A), S.cl(S.cl(A)) == S.cl(A))


def st_monotone(S, A, A2):
    return Implies(And(S.dom_in(A), S.dom_in(A2), S.C.sets.subset(A, A2)), S.C.sets.subset(S.cl(A), S.cl(A2)))


def st_meet_closed(S, e1, e2):
    """the intersection of two closed sets is closed"""
    return Implies(And(S.dom_in(e1), S.dom_in(e2), S.cl(e1) == e1, S.cl(e2) == e2),
                   And(S.dom_in(band(e1, e2)), S.cl(band(e1, e2)) == band(e1, e2)))


def st_least(S, A, e):
    """cl(A) is below every closed set containing A"""
    return Implies(And(S.dom_in(A), S.dom_in(e), S.cl(e) == e, S.C.sets.subset(A, e)), S.C.sets.subset(S.cl(A), e))


def use_galois(path, S, A):
    """instances of lemma.galois.<side> + lemma.galois2.<side> for A: domains, cl = dn.up, extensive, up.cl = up, idempotent"""
    path.assume([st_dom(S, A), st_cl_def(S, A), st_extensive(S, A), st_up_cl(S, A), st_idem(S, A)])


def _galois(which):
    def make():
        C = Ctx()
        S = Side(C, which)
        D = Side(C, 'P' if which == 'O' else 'O')

        def prove(path):
            A, A2 = Ints('A A2')
            path.oblige('dom', 'lemma', st_dom(S, A))
            path.assume(st_dom(S, A))
            ext(path, S.cl(A), S.dn(S.up(A)))
            path.oblige('cl=dn.up', 'lemma', st_cl_def(S, A))
            path.oblige('antitone', 'lemma', st_antitone(S, A, A2))
            path.oblige('extensive', 'lemma', st_extensive(S, A))
        return C.axioms(), prove
    return make


def _galois2(which):
    def make():
        C = Ctx()
        S = Side(C, which)
        D = Side(C, 'P' if which == 'O' else 'O')

        def prove(path):
            A, A2, e = Ints('A A2 e')
            sub = C.sets.subset
            # instances of lemma.galois (both sides)
            for X in (A, A2, S.cl(A), S.cl(A2), band(A, A2)):
                path.assume([st_dom(S, X), st_cl_def(S, X), st_extensive(S, X)])
            for Y in (S.up(A), S.up(A2), S.up(S.cl(A))):
                path.assume([st_dom(D, Y), st_cl_def(D, Y), st_extensive(D, Y)])
            path.assume(st_antitone(S, A, S.cl(A)))
            ext(path, S.up(S.cl(A)), S.up(A))
            path.oblige('up.cl=up', 'lemma', st_up_cl(S, A))
            path.assume(st_up_cl(S, A))
            path.oblige('idempotent', 'lemma', st_idem(S, A))
            # monotone: A <= A2 -> up(A2) <= up(A) -> dn(up(A)) <= dn(up(A2))
            path.assume(st_antitone(S, A, A2))
            path.assume(st_antitone(D, S.up(A2), S.up(A)))
            path.oblige('monotone', 'lemma', st_monotone(S, A, A2))
            path.assume(st_monotone(S, A, A2))
            # least: A <= e closed -> cl(A) <= cl(e) = e
            path.assume([st_dom(S, e), st_monotone(S, A, e)])
            path.oblige('least', 'lemma', st_least(S, A, e))
        return C.axioms(), prove
    return make


def _meet_closed(which):
    def make():
        C = Ctx()
        S = Side(C, which)

        def prove(path):
            e1, e2 = Ints('e1 e2')
            sub = C.sets.subset
            x = band(e1, e2)
            path.assume(And(S.dom_in(e1), S.dom_in(e2), S.cl(e1) == e1, S.cl(e2) == e2))
            path.oblige('dom', 'lemma', S.dom_in(x))
            path.assume([st_dom(S, x), st_extensive(S, x), st_monotone(S, x, e1), st_monotone(S, x, e2)])
            path.oblige('sub1', 'lemma', sub(x, e1))
            path.oblige('sub2', 'lemma', sub(x, e2))
            ext(path, S.cl(x), x)
            path.oblige('closed', 'lemma', S.cl(x) == x)
        return C.axioms(), prove
    return make


for _w in ('O', 'P'):
    register(Unit('lemma.galois.' + _w, None, None, _galois(_w),
                  assumptions=['definitions of Up/Dn/Cl (conservative, skolemised)']))
    register(Unit('lemma.galois2.' + _w, None, None, _galois2(_w), assumptions=['instances of lemma.galois.O/P']))
    register(Unit('lemma.meet_closed.' + _w, None, None, _meet_closed(_w), assumptions=['instances of lemma.galois2']))


# ---- BITS lemmas about subset via or/and (quantified form, proved once, then usable as axioms with triggers)

def st_bits_subset():
    from z3 import ForAll, Ints
    from contracts.ctxtheory import SetPreds
    x, y = Ints('x y')
    S = SetPreds()
    return S, [
        ('L-SUBSET-OR', ForAll([x, y], Implies(And(x >= 0, y >= 0), (bor(x, y) == x) == S.subset(y, x)), patterns=[bor(x, y)])),
        ('L-SUBSET-AND', ForAll([x, y], Implies(And(x >= 0, y >= 0), (band(x, y) == y) == S.subset(y, x)), patterns=[band(x, y)])),
        ('L-SUBSET-AND2', ForAll([x, y], Implies(And(x >= 0, y >= 0), (band(x, y) == x) == S.subset(x, y)), patterns=[band(x, y)])),
        ('L-SUBSET-OR2', ForAll([x, y], Implies(And(x >= 0, y >= 0), (bor(x, y) == y) == S.subset(x, y)), patterns=[bor(x, y)])),
    ]


def _bits_subset():
    S, stmts = st_bits_subset()

    def prove(path):
        from z3 import Ints
        x, y = Ints('x0 y0')
        path.assume(And(x >= 0, y >= 0))
        ext(path, bor(x, y), x)
        path.oblige('or', 'lemma', (bor(x, y) == x) == S.subset(y, x))
        ext(path, band(x, y), y)
        path.oblige('and', 'lemma', (band(x, y) == y) == S.subset(y, x))
        ext(path, band(x, y), x)
        path.oblige('and2', 'lemma', (band(x, y) == x) == S.subset(x, y))
        ext(path, bor(x, y), y)
        path.oblige('or2', 'lemma', (bor(x, y) == y) == S.subset(x, y))
    return bits.axioms() + S.axioms(), prove


register(Unit('lemma.bits_subset', None, None, _bits_subset, assumptions=['BITS axioms, extensionality instance']))
