"""Contracts for the row-level formats (C11/C12): formats/csv_context.py (Csv.dumpf, Csv.loadf, the round trip lemma) and
formats/python_literal.py (load_file: the cell matrix; dump_file: the 'context' entry and the order of the sections).

CSV.  The text work is done by the `csv` module and `tools.write_csv_file` (external, assumed); the two functions work on ROWS.
  SYM   (the SYMBOLS table, stated here, the run uses the table READ FROM THE SOURCE and the post compares):
            False -> {False: '', True: 'X'}      True -> {False: 0, True: 1}
  VAL   (the VALUES table {as_int: {str(s): v}}; a DERIVED constant, stated here; the run evaluates the real module-level
         expression `VALUES = {...}` from the source with the engine and the post compares the table that was used with it):
            False -> {'': False, 'X': True}      True -> {'0': False, '1': True}
  Csv.dumpf   exactly one call  tools.write_csv_file(file, rows, header=[object_header] + list(properties), dialect=<given or
              cls.dialect>)  where rows has one row per (object, bools-row) pair in zip order, row r = [objects[r]] + [SYM[a][b] for
              b in bools[r]]  (a = bools_as_int).
  Csv.loadf   file model (ASSUMED contract of csv.reader): an iterator over the rows of the file, each a list of texts, row 0 the
              header, rows 1..n the data rows, REQUIRES every row has at least one cell (csv.reader gives [] for a blank line: then
              the starred unpacking raises ValueError - required away).
              properties = header[1:];  T = VAL[bools_as_int] when given;  when None: REQUIRES-or-raises n >= 1 (StopIteration
              iff n = 0), T = VAL[False] if every symbol of data row 1 is a key of VAL[False], else VAL[True] if they all are keys
              of VAL[True], else ValueError;  objects[j] = row(j+1)[0], bools[j] = tuple(T[x] for x in row(j+1)[1:]) for ALL data
              rows (the first one included), result ContextArgs(objects, properties, bools);  KeyError iff some cell of some data
              row is not a key of T (it propagates from the first such row).
  lemma.csv.roundtrip   over the two contracts and the ASSUMED csv contract "csv.reader(csv.writer output) returns the written rows
              with str() of every cell": loadf(dumpf(objects, properties, bools)) = (objects, properties, bools) for
              bools_as_int in {False, True} given to both, and for auto-detection on the loading side.
              Representability preconditions: labels are texts (str(x) = x), bools has one row per object with one cell per
              property, and for auto-detection at least one object (n >= 1).  (At least one property is NOT needed for the result:
              with m = 0 a 0/1 file is detected as an X/'' file, and every row decodes to the empty tuple under either table.)

PYTHON LITERAL.
  load_file   ast.literal_eval(file.read()) ASSUMED to return the dict args;  REQUIRES  0 <= i < len(properties) for every index i
              in args['context'][r]  (BOTH ways out of range are required away: i >= len raises IndexError, -len <= i < 0 would
              silently address from the end, i < -len raises IndexError).  Ensures bools has one tuple per object with one cell per
              property and bools[r][i] is True iff r < len(context) and i occurs in args['context'][r]; result
              SerializedArgs(objects, properties, bools, serialized=args).  The rows are heap objects: cell function Cell(r, i)
              (versioned), ghost witness wit(r, i) = a position of i in context[r].
  dump_file   `_serialized is None`: doc = {'objects': objects, 'properties': properties, 'context': per row the ascending
              indexes of its true cells}; else doc = _serialized (REQUIRES a dict with the keys objects, properties, context: the two
              asserts are obligations).  The lines written with print(line, file=file) are, in this order:
              '{', the sections objects, properties (one joined line each, in parentheses), context, and lattice iff the key is
              present (one line per entry, in brackets), '}'.  repr / join / the f-strings are opaque texts of their operands.
"""
import ast

from z3 import (And, BoolSort, BoolVal, Const, DeclareSort, Distinct, Exists, ForAll, Function, If, Implies, Int, IntSort, IntVal,
                Ints, Not, Or, is_false, is_true, simplify)

from pyvc import extract
from pyvc.engine import (BoolV, ClassV, DictV, FilterV, FuncV, IntV, IterV, IteV, ListV, LoopSpec, NONE, NoneV, ObjV, PyRaise, SeqV,
                         StrV, TermV, TupleV, Unsupported, ite, truthy)
from contracts import lib
from contracts.persist import meth
from contracts.registry import Unit, register

I = IntSort()
B = BoolSort()
CSVF = 'concepts/formats/csv_context.py'
PYL = 'concepts/formats/python_literal.py'

# ---- texts: an uninterpreted sort with one constant per python string literal (distinct literals are distinct texts)
Text = None          # created on first use (inside make()): importing this module creates no z3 objects, so that the AST numbering the
_LITS = {}           # other units see - and with it the behaviour of the solver on their obligations - does not depend on this module


def _text_sort():
    global Text
    if Text is None:
        Text = DeclareSort('Text')
    return Text
BASE_LITS = ('', 'X', '0', '1')


def lit(s, path=None):
    if s not in _LITS:
        c = Const('text:%r' % (s,), Text)
        if path is not None and _LITS:
            path.assume(And(*[c != o for o in _LITS.values()]))
        _LITS[s] = c
    return _LITS[s]


def text_axioms():
    return [('text.distinct-literals', Distinct(*[lit(s) for s in BASE_LITS]))]


# ---- the two tables as the contract states them
SYM = {False: {False: '', True: 'X'}, True: {False: 0, True: 1}}
VAL = {a: {str(s): v for v, s in t.items()} for a, t in SYM.items()}       # derived: {str(symbol): value}


def valid(a, x):
    """x is a key of VAL[a]"""
    return Or(*[x == lit(k) for k in VAL[a]])


def dec(a, x):
    """VAL[a][x] for a key x"""
    return Or(*[x == lit(k) for k, v in VAL[a].items() if v])


def written(a, b):
    """str() of the symbol dumpf hands to the writer for the cell value b (assumed csv contract: cells are written with str())"""
    return If(b, lit(str(SYM[a][True])), lit(str(SYM[a][False])))


# ---- python values of the harnesses

def concrete_bool(v):
    if isinstance(v, BoolV):
        t = simplify(v.t)
        if is_true(t):
            return True
        if is_false(t):
            return False
    return None


class Table(ObjV):
    """A dict whose keys are the constants True/False or string literals (a display or comprehension evaluated from the real
    source).  Lookup with a symbolic Bool: the conditional value; with a text term: KeyError unless it is one of the keys."""

    def __init__(self, path, pairs):
        ObjV.__init__(self, 'dict', {}, name='table')
        self.entries = []
        for k, v in pairs:
            if isinstance(v, DictV):
                v = Table(path, [(StrV(kk), vv) for kk, vv in v.items.items()])
            if concrete_bool(k) is not None:
                self.entries.append((concrete_bool(k), v))
            elif isinstance(k, StrV) and k.value is not None:
                self.entries.append((k.value, v))
            else:
                raise Unsupported('table key %r' % (k,))
        if len({type(k) for k, _ in self.entries}) > 1 or len({k for k, _ in self.entries}) != len(self.entries):
            raise Unsupported('table with mixed or repeated keys')
        g = FuncV('dict.__getitem__', lambda p, a, kw: self.lookup(p, a[-1]))
        g.table = self
        self.fields['__getitem__'] = g
        self.fields['items'] = FuncV('dict.items', lambda p, a, kw: ListV([TupleV([self.keyval(k), v]) for k, v in self.entries]))
        self.fields['__iter__'] = FuncV('dict.__iter__', lambda p, a, kw: ListV([self.keyval(k) for k, _ in self.entries]))      # the keys, in insertion order
        c = FuncV('dict.__contains__', lambda p, a, kw: self.contains(p, a[-1]))
        c.table = self
        self.fields['__contains__'] = c

    @staticmethod
    def keyval(k):
        return BoolV(k) if isinstance(k, bool) else StrV(k)

    def plain(self):
        """the table as python data when its values are constants or tables of constants, else None"""
        out = {}
        for k, v in self.entries:
            if isinstance(v, Table):
                out[k] = v.plain()
            elif concrete_bool(v) is not None:
                out[k] = concrete_bool(v)
            elif isinstance(v, StrV) and v.value is not None:
                out[k] = v.value
            elif isinstance(v, IntV) and simplify(v.t).sort() == I and str(simplify(v.t)).lstrip('-').isdigit():
                out[k] = int(str(simplify(v.t)))
            else:
                return None
        return out

    def key_valid(self, p, x):
        return Or(*[x == lit(k, p) for k, _ in self.entries]) if self.entries else BoolVal(False)

    def decode(self, p, x):
        """the value under the text key x (all values boolean constants)"""
        vals = [concrete_bool(v) for _, v in self.entries]
        if any(v is None for v in vals):
            raise Unsupported('text-keyed table with non-boolean values')
        hits = [x == lit(k, p) for (k, _), v in zip(self.entries, vals) if v]
        return BoolV(Or(*hits) if hits else BoolVal(False))

    def contains(self, p, key):
        """`key in table`: exactly the condition under which `lookup` does not raise KeyError (no path decision: a formula)"""
        d = dict(self.entries)
        cb = concrete_bool(key)
        if self.entries and isinstance(self.entries[0][0], bool):
            if cb is not None:
                return BoolV(cb in d)
            if isinstance(key, BoolV):
                return BoolV(Or(And(key.t, BoolVal(True in d)), And(Not(key.t), BoolVal(False in d))))
            raise Unsupported('membership of %r in a table keyed by booleans' % (key,))
        if isinstance(key, StrV) and key.value is not None:
            return BoolV(key.value in d)
        if isinstance(key, TermV) and key.t.sort() == Text:
            return BoolV(self.key_valid(p, key.t))
        raise Unsupported('membership of %r in a table keyed by texts' % (key,))

    def lookup(self, p, key):
        d = dict(self.entries)
        cb = concrete_bool(key)
        if self.entries and isinstance(self.entries[0][0], bool):
            if cb is not None:
                if cb not in d:
                    raise PyRaise('KeyError')
                return d[cb]
            if isinstance(key, BoolV) and set(d) == {True, False}:
                return ite(key.t, d[True], d[False])
            raise Unsupported('lookup of %r in a table keyed by booleans (REQUIRES bool cells / a bool flag)' % (key,))
        if isinstance(key, StrV) and key.value is not None:
            if key.value not in d:
                raise PyRaise('KeyError')
            return d[key.value]
        if isinstance(key, TermV) and key.t.sort() == Text:
            if p.branch(self.key_valid(p, key.t)):
                return self.decode(p, key.t)
            raise PyRaise('KeyError')
        raise Unsupported('lookup of %r in a table keyed by texts' % (key,))


class SymList(ObjV):
    """list(<iterable of symbolic length>): a new list with the same elements in order"""

    def __init__(self, seq, name='list'):
        ObjV.__init__(self, 'list', {}, name=name)
        self.seq = seq
        self.fields['__radd__'] = FuncV('list.__radd__', lambda p, a, kw: Prefixed(list(a[1].items), self.seq))
        self.fields['__iter__'] = FuncV('list.__iter__', lambda p, a, kw: IterV(self.seq.at, self.seq.length, 'iter(%s)' % name))


class Prefixed(ObjV):
    """[x1, .., xk] + <list of symbolic length>"""

    def __init__(self, prefix, rest):
        ObjV.__init__(self, 'list', {}, name='prefixed-list')
        self.prefix, self.rest = prefix, rest


def sym_eq(v, const):
    """the value v is the python constant `const` (same type, same value), as a formula"""
    if isinstance(v, IteV):
        return If(v.c, sym_eq(v.a, const), sym_eq(v.b, const))
    if isinstance(v, StrV):
        return BoolVal(isinstance(const, str) and v.value is not None and v.value == const)
    if isinstance(v, BoolV):
        return And(v.t, BoolVal(const is True)) if isinstance(const, bool) and const else \
            (Not(v.t) if isinstance(const, bool) else BoolVal(False))
    if isinstance(v, IntV):
        return v.t == const if type(const) is int else BoolVal(False)
    return BoolVal(False)


def class_attr(interp, relpath, clsname, attr):
    """the value expression of the class-level assignment `attr = <expr>` of the real class, evaluated (part of the verified text)"""
    _, tree = extract.parse_file(relpath)
    found = None
    for node in tree.body:
        if isinstance(node, ast.ClassDef) and node.name == clsname:
            for st in node.body:
                if isinstance(st, ast.Assign) and len(st.targets) == 1 and isinstance(st.targets[0], ast.Name) and st.targets[0].id == attr:
                    found = st.value
    if found is None:
        raise Unsupported('class %s has no attribute %s in its own body' % (clsname, attr))
    return interp.eval(found, {})


def csv_class():
    cls = ObjV('class', {}, name='Csv')
    cache = {}

    def ga(p, o, attr):
        if attr not in cache:
            cache[attr] = class_attr(p.interp, CSVF, 'Csv', attr)
        return cache[attr]
    cls.fields['__getattr__'] = ga
    return cls


def _str(p, args, kw):
    (v,) = args
    if isinstance(v, StrV) and v.value is not None:
        return v
    if isinstance(v, IntV) and str(simplify(v.t)).lstrip('-').isdigit():
        return StrV(str(simplify(v.t)))
    if concrete_bool(v) is not None:
        return StrV(str(concrete_bool(v)))
    if isinstance(v, TermV) and v.t.sort() == Text:
        return v
    raise Unsupported('str of %r' % (v,))


def _map(p, args, kw):
    f, it = args
    o = ObjV('map', {}, name='map(%s)' % getattr(f, 'name', '?'))
    o.fn, o.of = f, it

    def iter_(p2, a, k):
        # iterating the map object: f applied to every element in order (lazily, per element)
        s = _seq_of(p2, o.of)
        if s is None:
            raise Unsupported('iteration over map(_, %r)' % (o.of,))
        r = IterV(lambda t: p2.interp.call(o.fn, [s.at(t)], {}), s.length, o.name)
        r.index_shift = getattr(s, 'index_shift', 0)
        return r
    o.fields['__iter__'] = FuncV('map.__iter__', iter_)
    return o


def _seq_of(p, v):
    if isinstance(v, (IterV, SeqV)):
        return v
    if isinstance(v, ObjV) and v.cls == 'map':
        return None         # a lazy map is forced by list()/tuple() (force_map) or iterated explicitly
    if isinstance(v, ObjV) and '__iter__' in v.fields:
        return p.interp.call(v.fields['__iter__'], [v], {})
    return None


def force_map(p, m):
    """Run a lazy map(table.__getitem__, cells) to its end: KeyError iff some cell is not a key, else the decoded sequence."""
    table = getattr(m.fn, 'table', None)
    seq = _seq_of(p, m.of)
    if table is None or seq is None:
        raise Unsupported('map(%r, %r)' % (m.fn, m.of))
    probe = seq.at(Int('t?'))
    if isinstance(probe, BoolV):
        # a table keyed by booleans over boolean cells: total
        return IterV(lambda t: table.lookup(p, seq.at(t)), seq.length, 'map(symbols)')
    if not (isinstance(probe, TermV) and probe.t.sort() == Text):
        raise Unsupported('map of a table over %r' % (probe,))
    from z3 import Bool
    n = next(p.eng.counter)
    ok, w, t = Bool('all-decodable!%d' % n), Int('undecodable.w!%d' % n), Int('t')
    # cells = row[nb:] of a starred unpacking: quantify over the positions in the row itself (so that the facts match cell(r, c))
    base, lo, hi = seq, IntVal(0), seq.length
    if getattr(seq, 'star_of', None) is not None:
        base, nb, na = seq.star_of
        lo, hi = IntVal(nb), base.length - na
    p.assume(Implies(ok, ForAll([t], Implies(And(lo <= t, t < hi), table.key_valid(p, base.at(t).t)), patterns=[base.at(t).t])))
    p.assume(Implies(Not(ok), And(lo <= w, w < hi, Not(table.key_valid(p, base.at(w).t)))))
    if not p.branch(ok):
        raise PyRaise('KeyError')
    return SeqV(lambda tt: table.decode(p, seq.at(tt).t), seq.length, 'decoded')


def _list(p, args, kw):
    if not args:
        return ListV([])
    v = args[0]
    if isinstance(v, (TupleV, ListV)):
        return ListV(v.items)
    if isinstance(v, ObjV) and v.cls == 'map':
        return SymList(force_map(p, v))
    s = _seq_of(p, v)
    if s is not None:
        return SymList(s)
    raise Unsupported('list of %r' % (v,))


def _tuple(p, args, kw):
    if not args:
        return TupleV([])
    v = args[0]
    if isinstance(v, (TupleV, ListV)):
        return TupleV(v.items)
    if isinstance(v, ObjV) and v.cls == 'map':
        s = force_map(p, v)
        return SeqV(s.at, s.length, 'tuple(%s)' % s.name)
    if isinstance(v, ObjV) and '__tuple__' in v.fields:
        return v.fields['__tuple__'].fn(p, [v], {})
    if isinstance(v, FilterV):
        return v           # the filtered elements in order, immutable
    s = _seq_of(p, v)
    if s is not None:
        return SeqV(s.at, s.length, 'tuple(%s)' % s.name)
    raise Unsupported('tuple of %r' % (v,))


def _zip(p, args, kw):
    seqs = [_seq_of(p, a) for a in args]
    if kw or len(seqs) != 2 or any(s is None for s in seqs):
        raise Unsupported('zip of %r' % (args,))
    a, b = seqs
    n = Int('zip.len!%d' % next(p.eng.counter))
    # zip stops with the shorter one
    p.assume(And(a.length >= 0, b.length >= 0, n <= a.length, n <= b.length, Or(n == a.length, n == b.length)))
    return IterV(lambda t: TupleV([a.at(t), b.at(t)]), n, 'zip')


def base_globals(path):
    g = dict(lib.builtins())
    g.update(str=FuncV('str', _str), map=FuncV('map', _map), list=FuncV('list', _list), tuple=FuncV('tuple', _tuple),
             zip=FuncV('zip', _zip), dict=ClassV('dict'))
    return g


def labels(fn, n, name):
    return SeqV(lambda t: TermV(fn(t)), n, name)


# =====================================================================================================================
# Csv.dumpf

def _dumpf_unit():
    def make():
        _text_sort()
        O, P = Function('object', I, Text), Function('property', I, Text)
        Bv, blen = Function('bool', I, I, B), Function('len.bools.row', I, I)
        n, m, nb = Ints('n m nb')

        def harness(path):
            calls = []
            path.assume(And(n >= 0, m >= 0, nb >= 0))
            file = ObjV('Arg', {}, name='file')
            cls = csv_class()
            excel = ObjV('dialect', {}, name='csv.excel')
            csvmod = ObjV('module', {'excel': excel}, name='csv')
            tools = ObjV('module', {'write_csv_file': FuncV('tools.write_csv_file', lambda p, a, k: calls.append((a, k)) or NONE)}, name='tools')
            objects, properties = labels(O, n, 'objects'), labels(P, m, 'properties')
            bools = IterV(lambda r: SeqV(lambda c: BoolV(Bv(r, c)), blen(r), 'bools[%s]' % r), nb, 'bools')
            env = {'cls': cls, 'file': file, 'objects': objects, 'properties': properties, 'bools': bools}
            # bools_as_int: default (False) / False / True;  dialect: default (cls.dialect) / given;  object_header: default None / given
            case = path.choose([Int('case.bools_as_int') == c for c in range(3)])
            if case:
                env['bools_as_int'] = BoolV(case == 2)
            a = case == 2
            given = ObjV('Arg', {}, name='dialect')
            if path.branch(z3_bool('dialect_given')):
                env['dialect'] = given
                dialect = given
            else:
                dialect = excel
            oh = ObjV('Arg', {}, name='object_header')
            if path.branch(z3_bool('object_header_given')):
                env['object_header'] = oh
            else:
                oh = NONE

            def finish(path, env_, outcome):
                if outcome[0] != 'return':
                    path.oblige('post/no-exception', 'post', BoolVal(False))
                    return
                ok = len(calls) == 1 and len(calls[0][0]) == 2 and set(calls[0][1]) == {'header', 'dialect'}
                path.oblige('post/one-call-of-write_csv_file(file, rows, header=, dialect=)', 'post', BoolVal(ok and isinstance(outcome[1], NoneV)))
                if not ok:
                    return
                (f, rows), kw = calls[0]
                path.oblige('post/file', 'post', BoolVal(f is file))
                path.oblige('post/dialect-given-or-the-class-default', 'post', BoolVal(kw['dialect'] is dialect))
                # the symbol table of the real module is the stated one
                path.oblige('post/SYMBOLS-table', 'post', BoolVal(getattr(cls.fields['__getattr__'](path, cls, 'symbols'), 'plain', lambda: None)() == SYM))
                h = kw['header']
                okh = isinstance(h, Prefixed) and len(h.prefix) == 1 and h.prefix[0] is oh and isinstance(h.rest, (IterV, SeqV))
                path.oblige('post/header-shape: [object_header] + properties', 'post', BoolVal(okh))
                t, r, c = path.fresh_int('t'), path.fresh_int('r'), path.fresh_int('c')
                if okh:
                    path.oblige('post/header-properties', 'post', And(h.rest.length == m, Implies(And(0 <= t, t < m), _teq(h.rest.at(t), P(t)))))
                okr = isinstance(rows, IterV)
                path.oblige('post/rows-iterable', 'post', BoolVal(okr))
                if not okr:
                    return
                # one row per (object, bools-row) pair, in zip order
                path.oblige('post/one-row-per-pair', 'post', And(rows.length <= n, rows.length <= nb, Or(rows.length == n, rows.length == nb)))
                path.assume(And(0 <= r, r < rows.length, 0 <= c, c < blen(r)))
                row = rows.at(r)
                oks = isinstance(row, Prefixed) and len(row.prefix) == 1 and isinstance(row.rest, (IterV, SeqV))
                path.oblige('post/row-shape: [object] + symbols', 'post', BoolVal(oks))
                if oks:
                    path.oblige('post/row-object', 'post', _teq(row.prefix[0], O(r)))
                    path.oblige('post/row-one-symbol-per-cell', 'post', row.rest.length == blen(r))
                    cell = row.rest.at(c)
                    path.oblige('post/row-symbols', 'post', If(Bv(r, c), sym_eq(cell, SYM[a][True]), sym_eq(cell, SYM[a][False])))
            g = base_globals(path)
            g.update(csv=csvmod, tools=tools)
            return env, {'globals': g, 'module_constants': True, 'dict_factory': Table}, finish
        return text_axioms(), harness
    return make


def z3_bool(name):
    from z3 import Bool
    return Bool(name)


def _teq(v, term):
    return v.t == term if isinstance(v, TermV) and v.t.sort() == term.sort() else BoolVal(False)


register(Unit('formats.csv.dumpf', CSVF, 'Csv.dumpf', _dumpf_unit(),
              assumptions=['tools.write_csv_file / the csv module write the header and then one line per row (external)',
                           'REQUIRES bools cells are bool and bools_as_int is a bool (the symbol tables are keyed by True/False)',
                           'generator expression = element-wise map over zip(objects, bools) in order; zip stops with the shorter argument'],
              linkage=[('concepts.formats.Csv.dumpf.__func__', None)]))


# =====================================================================================================================
# Csv.loadf

class CsvFile:
    """the rows csv.reader yields for the file: row 0 = header, rows 1..n = data rows (ASSUMED library contract)"""

    def __init__(self, tag=''):
        self.cell = Function('csv.cell' + tag, I, I, Text)
        self.rowlen = Function('csv.rowlen' + tag, I, I)
        self.n = Int('csv.n' + tag)

    def row(self, r):
        v = SeqV(lambda c: TermV(self.cell(r, c)), self.rowlen(r), 'row[%s]' % r)
        v.r = r
        return v

    def wellformed(self):
        r = Int('r')
        return And(self.n >= 0, ForAll([r], self.rowlen(r) >= 1, patterns=[self.rowlen(r)]))

    def fits(self, a):
        """every symbol of the first data row is a key of VAL[a]"""
        c = Int('c')
        return ForAll([c], Implies(And(1 <= c, c < self.rowlen(1)), valid(a, self.cell(1, c))), patterns=[self.cell(1, c)])


def load_table(F, mode, fitsF):
    """the decoding table the contract of loadf prescribes: `mode` in (False, True, None); returns (valid(x), dec(x))"""
    if mode is None:
        return (lambda x: If(fitsF, valid(False, x), valid(True, x))), (lambda x: If(fitsF, dec(False, x), dec(True, x)))
    return (lambda x: valid(mode, x)), (lambda x: dec(mode, x))


def load_post(F, mode, fitsF, R):
    """The return part of the loadf contract for the result accessors R (objs_len, obj(j), props_len, prop(t), bools_len,
    brow_len(j), bcell(j, c)): a list of (name, bound variables, formula, pattern)."""
    vld, dcd = load_table(F, mode, fitsF)
    j, t, c = Ints('j t c')
    inj = And(0 <= j, j < F.n)
    return [
        ('objects: one per data row', [], R.objs_len == F.n, None),
        ('objects: first cells of the data rows, in order', [j], Implies(inj, R.obj(j) == F.cell(j + 1, 0)), R.obj(j)),
        ('properties: one per header cell but the first', [], R.props_len == F.rowlen(0) - 1, None),
        ('properties: the header without its first cell', [t], Implies(And(0 <= t, t < F.rowlen(0) - 1), R.prop(t) == F.cell(0, t + 1)), R.prop(t)),
        ('bools: one tuple per data row', [], R.bools_len == F.n, None),
        ('bools: one cell per symbol', [j], Implies(inj, R.brow_len(j) == F.rowlen(j + 1) - 1), R.brow_len(j)),
        ('bools: cells decoded with the table', [j, c], Implies(And(inj, 0 <= c, c < F.rowlen(j + 1) - 1), R.bcell(j, c) == dcd(F.cell(j + 1, c + 1))),
         R.bcell(j, c)),
    ]


def load_raises(F, mode, fitsF, fitsT):
    """exception kind -> the condition under which the loadf contract allows it (it raises nothing else)"""
    vld, _ = load_table(F, mode, fitsF)
    r, c = Ints('r c')
    undec = Exists([r, c], And(1 <= r, r <= F.n, 1 <= c, c < F.rowlen(r), Not(vld(F.cell(r, c)))), patterns=[F.cell(r, c)])
    if mode is None:
        return {'StopIteration': F.n == 0, 'ValueError': And(F.n >= 1, Not(fitsF), Not(fitsT)), 'KeyError': And(F.n >= 1, Or(fitsF, fitsT), undec)}
    return {'KeyError': undec}


class GhostList:
    """ghost content of a python list that grows in a loop of symbolic length (A-HEAP: the ListV carries it)"""

    def __init__(self, path, hint):
        self.path, self.hint = path, hint
        self.kind = None
        self.len = IntVal(0)
        self.fresh()

    def fn(self, nm, *sorts):
        return Function('%s.%s!%d' % (self.hint, nm, next(self.path.eng.counter)), *sorts)

    def fresh(self):
        self.text, self.rlen, self.rcell = self.fn('text', I, Text), self.fn('rowlen', I, I), self.fn('cell', I, I, B)

    def havoc(self):
        self.len = self.path.fresh_int(self.hint + '.len')
        self.fresh()

    def append(self, x):
        p = self.path
        j, c = Ints('j c')
        if isinstance(x, TermV) and x.t.sort() == Text:
            kind = 'text'
        elif isinstance(x, SeqV) and isinstance(x.at(Int('c?')), BoolV):
            kind = 'row'
        else:
            raise Unsupported('append of %r to a list of symbolic length' % (x,))
        if self.kind not in (None, kind):
            raise Unsupported('list with elements of two kinds')
        self.kind = kind
        if kind == 'text':
            new = self.fn('text', I, Text)
            p.assume(ForAll([j], new(j) == If(j == self.len, x.t, self.text(j)), patterns=[new(j)]))
            self.text = new
        else:
            nl, nc = self.fn('rowlen', I, I), self.fn('cell', I, I, B)
            p.assume(ForAll([j], nl(j) == If(j == self.len, x.length, self.rlen(j)), patterns=[nl(j)]))
            p.assume(ForAll([j, c], nc(j, c) == If(j == self.len, x.at(c).t, self.rcell(j, c)), patterns=[nc(j, c)]))
            self.rlen, self.rcell = nl, nc
        self.len = self.len + 1


def ghost_of(path, lst):
    if not isinstance(lst, ListV) or lst.items:
        raise Unsupported('ghost content of %r' % (lst,))
    if getattr(lst, 'ghost', None) is None:
        lst.ghost = GhostList(path, 'list%d' % next(path.eng.counter))
    return lst.ghost


def top_level_for(relpath, qualname):
    """ordinal (engine numbering: breadth-first over the function) of the for statement at the top level of the body"""
    x = extract.get_function(relpath, qualname)
    n, found = 0, []
    for node in ast.walk(x.node):
        if isinstance(node, (ast.While, ast.For)):
            if node in x.node.body:
                found.append(n)
            n += 1
    if len(found) != 1:
        raise Unsupported('expected exactly one top-level loop in %s' % qualname)
    return found[0]


def _loadf_unit():
    def make():
        _text_sort()
        F = CsvFile()

        def harness(path):
            calls = []
            path.assume(F.wellformed())
            file = ObjV('Arg', {}, name='file')
            cls = csv_class()
            excel = ObjV('dialect', {}, name='csv.excel')
            env = {'cls': cls, 'file': file}
            case = path.choose([Int('case.bools_as_int') == c for c in range(3)])      # None (default) / False / True
            mode = None if case == 0 else (case == 2)
            if case:
                env['bools_as_int'] = BoolV(mode)
            given = ObjV('Arg', {}, name='dialect')
            if path.branch(z3_bool('dialect_given')):
                env['dialect'] = given
                dialect = given
            else:
                dialect = excel
            fitsF, fitsT = z3_bool('first-row-fits-X/empty'), z3_bool('first-row-fits-0/1')
            path.assume(And(fitsF == F.fits(False), fitsT == F.fits(True)))       # definitions (of the contract's own vocabulary)
            total = F.n + 1
            st = {'pos': IntVal(0)}

            reader = ObjV('csv.reader', {}, name='reader')

            def next_(p, a, k):
                if p.branch(st['pos'] < total):
                    r = F.row(st['pos'])
                    st['pos'] = simplify(st['pos'] + 1)
                    return r
                raise PyRaise('StopIteration')

            def iter_(p, a, k):
                pos = st['pos']
                st['pos'] = total
                return IterV(lambda t: F.row(pos + t), total - pos, 'rest(reader)')
            reader.fields['__next__'] = FuncV('reader.__next__', next_)
            reader.fields['__iter__'] = FuncV('reader.__iter__', iter_)

            def csv_reader(p, a, k):
                calls.append(('reader', a, k))
                return reader

            def chain(p, a, k):
                # itertools.chain(rows already read, the reader): those rows, then what the reader still has
                if len(a) != 2 or not isinstance(a[0], ListV) or a[1] is not reader or not all(getattr(x, 'r', None) is not None for x in a[0].items):
                    raise Unsupported('chain of %r' % (a,))
                pre = [x.r for x in a[0].items]
                rest = iter_(p, [], {})
                pos = total - rest.length

                def idx(t):
                    e = pos + (t - len(pre))
                    for i in reversed(range(len(pre))):
                        e = If(t == i, pre[i], e)
                    return e

                def at(t):
                    # (called for ground positions only) the row index as a constant, so that facts about the row can be matched
                    r = p.fresh_int('chain.row')
                    p.assume(r == idx(t))
                    return F.row(r)
                return IterV(at, rest.length + len(pre), 'chain')

            def context_args(p, a, k):
                o = ObjV('ContextArgs', {}, name='ContextArgs(...)')
                o.args, o.kw = a, k
                return o

            def hook(lst, x):
                ghost_of(path, lst).append(x)
                return True
            path.ghost['list_append_hook'] = hook

            loop = top_level_for(CSVF, 'Csv.loadf')

            def table_in_use(e):
                gv = e.val('get_value')
                t = getattr(gv, 'table', None)
                if t is None:
                    raise Unsupported('get_value is not a table lookup')
                return t

            def inv(e, k):
                go, gb = ghost_of(path, e.val('objects')), ghost_of(path, e.val('bools'))
                tab = table_in_use(e)
                j, c = Ints('j c')
                out = [('objects-so-far', And(go.len == k, ForAll([j], Implies(And(0 <= j, j < k), go.text(j) == F.cell(j + 1, 0)), patterns=[go.text(j)]))),
                       ('bools-so-far/rows', And(gb.len == k, ForAll([j], Implies(And(0 <= j, j < k), gb.rlen(j) == F.rowlen(j + 1) - 1), patterns=[gb.rlen(j)]))),
                       ('bools-so-far/cells', ForAll([j, c], Implies(And(0 <= j, j < k, 0 <= c, c < F.rowlen(j + 1) - 1),
                                                                      gb.rcell(j, c) == tab.decode(path, F.cell(j + 1, c + 1)).t), patterns=[gb.rcell(j, c)])),
                       ('decodable-so-far', ForAll([j, c], Implies(And(1 <= j, j <= k, 1 <= c, c < F.rowlen(j)), tab.key_valid(path, F.cell(j, c))),
                                                   patterns=[F.cell(j, c)]))]
                return out

            def ghost_havoc(p, env_):
                for nm in ('objects', 'bools'):
                    ghost_of(p, env_[nm]).havoc()
            spec = LoopSpec(inv, ghost_havoc=ghost_havoc)

            def finish(path, env_, outcome):
                allowed = load_raises(F, mode, fitsF, fitsT)
                okc = len(calls) == 1 and calls[0][1] == [file] and set(calls[0][2]) == {'dialect'} and calls[0][2]['dialect'] is dialect
                path.oblige('post/reads-the-file-with-csv.reader(file, dialect=given or the class default)', 'post', BoolVal(okc))
                if outcome[0] == 'raise':
                    path.oblige('post/raises-%s-only-when-the-contract-says-so' % outcome[1], 'post', allowed.get(outcome[1], BoolVal(False)))
                    return
                res = outcome[1]
                ok = isinstance(res, ObjV) and res.cls == 'ContextArgs' and len(res.args) == 3 and not res.kw \
                    and all(isinstance(res.args[i], ListV) and not res.args[i].items and getattr(res.args[i], 'ghost', None) is not None for i in (0, 2)) \
                    and res.args[0] is not res.args[2] and isinstance(res.args[1], SeqV) \
                    and res.args[0].ghost.kind in (None, 'text') and res.args[2].ghost.kind in (None, 'row')
                path.oblige('post/returns-ContextArgs(objects, properties, bools)', 'post', BoolVal(ok))
                if not ok:
                    return
                # the decoding tables of the real module are the stated ones, and the one in use is the prescribed one
                tab = getattr(env_.get('get_value'), 'table', None)
                vals = cls.fields['__getattr__'](path, cls, 'values')
                path.oblige('post/VALUES-table', 'post', BoolVal(getattr(vals, 'plain', lambda: None)() == VAL))
                used = [a for a in (False, True) if tab is not None and tab.plain() == VAL[a]]
                path.oblige('post/decoding-table-is-one-of-VALUES', 'post', BoolVal(len(used) == 1))
                if len(used) != 1:
                    return
                if mode is None:
                    path.oblige('post/auto-detection: X/empty table first, then 0/1', 'post',
                                And(F.n >= 1, Or(fitsF, fitsT), BoolVal(used[0]) == Not(fitsF)))
                else:
                    path.oblige('post/table-of-the-given-flag', 'post', BoolVal(used[0] == mode))
                for exc, cond in allowed.items():
                    path.oblige('post/returns-only-when-no-%s-is-due' % exc, 'post', Not(cond))
                go, gb, props = res.args[0].ghost, res.args[2].ghost, res.args[1]

                class R:
                    objs_len, obj, props_len, bools_len, brow_len, bcell = go.len, go.text, props.length, gb.len, gb.rlen, gb.rcell

                    @staticmethod
                    def prop(t):
                        v = props.at(t)
                        return v.t if isinstance(v, TermV) and v.t.sort() == Text else Const('not-a-text', Text)
                from z3 import substitute
                for nm, vs, f, _ in load_post(F, mode, fitsF, R):
                    path.oblige('post/' + nm, 'post', substitute(f, *[(v, path.fresh_int(str(v))) for v in vs]))
            g = base_globals(path)
            g.update(csv=ObjV('module', {'reader': FuncV('csv.reader', csv_reader), 'excel': excel}, name='csv'),
                     itertools=ObjV('module', {'chain': FuncV('itertools.chain', chain)}, name='itertools'),
                     ContextArgs=FuncV('ContextArgs', context_args))
            return env, {'globals': g, 'module_constants': True, 'dict_factory': Table, loop: spec}, finish
        return text_axioms(), harness
    return make


register(Unit('formats.csv.loadf', CSVF, 'Csv.loadf', _loadf_unit(),
              assumptions=['csv.reader(file, dialect=d): an iterator over the rows of the file as lists of texts (row 0 the header, then the data rows)',
                           'REQUIRES every row has at least one cell (a blank line gives [] and the unpacking raises ValueError)',
                           'itertools.chain(xs, it): the elements of xs, then those of it; next(it) / for: each row once, in order',
                           'VALUES is evaluated from its module-level expression in the source (dict comprehension over SYMBOLS.items(), str() of the symbols)',
                           'list(map(f, xs)) / tuple(map(f, xs)) apply f to every element in order and raise what f raises'],
              linkage=[('concepts.formats.Csv.loadf.__func__', None)]))


# =====================================================================================================================
# lemma.csv.roundtrip

def _roundtrip_lemma():
    def make():
        _text_sort()
        def prove(path):
            O, P = Function('object', I, Text), Function('property', I, Text)
            Bv = Function('bool', I, I, B)
            n, m = Ints('n m')
            path.assume(And(n >= 0, m >= 0))
            r, c, j, t = Ints('r c j t')
            for a in (False, True):
                for mode in (a, None):
                    tag = '/dump=%s,load=%s' % (a, mode)
                    F = CsvFile(tag)
                    # what dumpf hands to the writer (contract of formats.csv.dumpf, bools with one row per object and one cell per
                    # property) read back through the ASSUMED csv contract: the same header and rows with str() of every cell
                    # (str(label) = label: labels are texts; the header's first cell, the object header, is not constrained)
                    path.assume(And(F.n == n, F.rowlen(0) == m + 1,
                                    ForAll([c], Implies(And(1 <= c, c <= m), F.cell(0, c) == P(c - 1)), patterns=[F.cell(0, c)]),
                                    ForAll([r], Implies(And(1 <= r, r <= n), F.rowlen(r) == m + 1), patterns=[F.rowlen(r)]),
                                    ForAll([r], Implies(And(1 <= r, r <= n), F.cell(r, 0) == O(r - 1)), patterns=[F.cell(r, 0)]),
                                    ForAll([r, c], Implies(And(1 <= r, r <= n, 1 <= c, c <= m), F.cell(r, c) == written(a, Bv(r - 1, c - 1))),
                                           patterns=[F.cell(r, c)])))
                    # representability for auto-detection: at least one object (a hypothesis of this case's goals only)
                    pre = n >= 1 if mode is None else BoolVal(True)
                    fitsF, fitsT = z3_bool('fitsF' + tag), z3_bool('fitsT' + tag)
                    path.assume(And(fitsF == F.fits(False), fitsT == F.fits(True)))
                    # use: the cell (1, 1) exists when there is a property (instance of the file description above)
                    path.assume(Implies(And(n >= 1, m >= 1), F.cell(1, 1) == written(a, Bv(0, 0))))
                    # 1. under the loadf contract no exception is due
                    for exc, cond in load_raises(F, mode, fitsF, fitsT).items():
                        path.oblige('no-%s%s' % (exc, tag), 'lemma', Implies(pre, Not(cond)))
                    # 2. hence loadf returns, and its result (contract of formats.csv.loadf, assumed here) is the triple that was dumped

                    class R:
                        objs_len, props_len, bools_len = Int('objs.len' + tag), Int('props.len' + tag), Int('bools.len' + tag)
                        obj, prop = Function('objs' + tag, I, Text), Function('props' + tag, I, Text)
                        brow_len, bcell = Function('bools.rowlen' + tag, I, I), Function('bools.cell' + tag, I, I, B)
                    for nm, vs, f, pat in load_post(F, mode, fitsF, R):
                        path.assume(Implies(pre, ForAll(vs, f, patterns=[pat]) if vs else f))
                    jj, tt, cc = path.fresh_int('j'), path.fresh_int('t'), path.fresh_int('c')
                    path.oblige('objects-as-given' + tag, 'lemma', Implies(pre, And(R.objs_len == n, Implies(And(0 <= jj, jj < n), R.obj(jj) == O(jj)))))
                    path.oblige('properties-as-given' + tag, 'lemma', Implies(pre, And(R.props_len == m, Implies(And(0 <= tt, tt < m), R.prop(tt) == P(tt)))))
                    path.oblige('bools-shape-as-given' + tag, 'lemma', Implies(pre, And(R.bools_len == n, Implies(And(0 <= jj, jj < n), R.brow_len(jj) == m))))
                    path.oblige('bools-as-given' + tag, 'lemma', Implies(And(pre, 0 <= jj, jj < n, 0 <= cc, cc < m), R.bcell(jj, cc) == Bv(jj, cc)))
        return text_axioms(), prove
    return make


register(Unit('lemma.csv.roundtrip', None, None, _roundtrip_lemma(),
              assumptions=['csv.reader(csv.writer output) returns the written header and rows with str() of every cell (csv module, external; bounded side: C12)',
                           'contracts of formats.csv.dumpf and formats.csv.loadf (proved units)',
                           'representability: labels are str (str(x) = x), bools has one row per object and one cell per property; for auto-detection at least one object']))


# =====================================================================================================================
# python_literal.load_file: the cell matrix

def comprehension_ordinals(relpath, qualname):
    """engine names ('ListComp#0', ..) of the comprehensions of the function, in source order, with their nodes"""
    x = extract.get_function(relpath, qualname)
    counts, out = {}, []
    for node in sorted((n for n in ast.walk(x.node) if isinstance(n, (ast.ListComp, ast.GeneratorExp, ast.SetComp, ast.DictComp))),
                       key=lambda n: (n.lineno, n.col_offset)):
        t = type(node).__name__
        out.append(('%s#%d' % (t, counts.get(t, 0)), node))
        counts[t] = counts.get(t, 0) + 1
    return out


def for_ordinals(relpath, qualname):
    """(ordinal, node) of the for/while statements of the function in engine numbering"""
    x = extract.get_function(relpath, qualname)
    return list(enumerate(n for n in ast.walk(x.node) if isinstance(n, (ast.While, ast.For))))


def _load_file_unit():
    def make():
        _text_sort()
        O, P = Function('object', I, Text), Function('property', I, Text)
        idx, clen = Function('context.index', I, I, I), Function('context.rowlen', I, I)
        n, m, nc = Ints('n m nc')

        def harness(path):
            cnt = path.eng.counter
            r_, i_, t_ = Ints('r i t')
            path.assume(And(n >= 0, m >= 0, nc >= 0))
            # REQUIRES: every index is a column position (negative indexes and indexes >= len(properties) are required away)
            path.assume(ForAll([r_, t_], Implies(And(0 <= r_, r_ < nc, 0 <= t_, t_ < clen(r_)), And(0 <= idx(r_, t_), idx(r_, t_) < m)),
                               patterns=[idx(r_, t_)]))
            path.assume(ForAll([r_], clen(r_) >= 0, patterns=[clen(r_)]))
            calls = []
            src = ObjV('str', {}, name='python_source')
            file = ObjV('file', {'read': meth(lambda p, a, k: calls.append(('read', a[1:], k)) or src)}, name='file')
            objects, properties = labels(O, n, "args['objects']"), labels(P, m, "args['properties']")
            context = SeqV(lambda r: SeqV(lambda t: IntV(idx(r, t)), clen(r), "args['context'][%s]" % r), nc, "args['context']")
            entries = {'objects': objects, 'properties': properties, 'context': context}
            args = ObjV('dict', {}, name='args')

            def getitem(p, a, k):
                key = a[-1]
                if not (isinstance(key, StrV) and key.value is not None):
                    raise Unsupported('args[%r]' % (key,))
                if key.value not in entries:
                    raise PyRaise('KeyError')
                return entries[key.value]
            args.fields['__getitem__'] = FuncV('dict.__getitem__', getitem)

            def literal_eval(p, a, k):
                calls.append(('literal_eval', a, k))
                return args
            astmod = ObjV('module', {'literal_eval': FuncV('ast.literal_eval', literal_eval)}, name='ast')

            # ---- the list of rows: heap objects.  Cell(r, i) is cell i of row object r; wit(r, i) a ghost position of i in context[r]
            st = {'allocated': None}

            def fn(nm, *sorts):
                return Function('%s!%d' % (nm, next(cnt)), *sorts)

            class Heap:
                def havoc(self, p):
                    st['Cell'], st['wit'] = fn('Cell', I, I, B), fn('wit', I, I, I)
            heap = Heap()

            def row_obj(mat, r):
                o = ObjV('list', {}, name='row[%s]' % r)
                o.r = r

                def setitem(p, a, k):
                    _, i, v = a
                    if not (isinstance(i, IntV) and isinstance(v, BoolV)):
                        raise Unsupported('row[%r] = %r' % (i, v))
                    # python: IndexError beyond the row, addressing from the end for a negative index; the contract requires a position
                    p.oblige('index@row: 0 <= i < len(properties)', 'index', And(0 <= i.t, i.t < mat.rowlen(r)))
                    Cell, wit = st['Cell'], st['wit']
                    C2, w2 = fn('Cell', I, I, B), fn('wit', I, I, I)
                    pos = p.ghost.get('k#%d' % inner_loop)        # ghost: the position in context[r] being processed
                    p.assume(ForAll([r_, i_], C2(r_, i_) == If(And(r_ == r, i_ == i.t), v.t, Cell(r_, i_)), patterns=[C2(r_, i_)]))
                    p.assume(ForAll([r_, i_], w2(r_, i_) == If(And(r_ == r, i_ == i.t), pos if pos is not None else IntVal(-1), wit(r_, i_)),
                                    patterns=[w2(r_, i_)]))
                    st['Cell'], st['wit'] = C2, w2
                    return NONE
                o.fields['__setitem__'] = FuncV('list.__setitem__', setitem)
                # tuple(row): a snapshot of the cells now
                o.fields['__tuple__'] = FuncV('tuple', lambda p, a, k: SeqV(lambda i, _Cell=st['Cell']: BoolV(_Cell(r, i)), mat.rowlen(r), 'tuple(row[%s])' % r))
                return o

            def alloc_matrix(interp, env, node):
                """[[<cell> for _ in cols] for _ in rows]: a new list of NEW row lists (no two rows are the same object, A-HEAP:
                the inner display is evaluated once per element); initial cells from the element-wise closed forms of the real text."""
                if len(node.generators) != 1 or node.generators[0].ifs or st['allocated'] is not None:
                    raise Unsupported('matrix comprehension')
                g = node.generators[0]
                outer = _seq_of(path, interp.eval(g.iter, env))
                if outer is None:
                    raise Unsupported('matrix comprehension over a concrete sequence')

                def inner_of(r):
                    e2 = dict(env)
                    interp.assign(g.target, outer.at(r), e2)
                    v = interp.eval(node.elt, e2)
                    if not isinstance(v, IterV) or not isinstance(v.at(i_), BoolV):
                        raise Unsupported('matrix row %r' % (v,))
                    return v
                mat = ObjV('list', {}, name='bools')
                mat.length = outer.length
                mat.rowlen = lambda r: inner_of(r).length
                heap.havoc(path)
                path.assume(ForAll([r_, i_], st['Cell'](r_, i_) == inner_of(r_).at(i_).t, patterns=[st['Cell'](r_, i_)]))
                mat.fields['__iter__'] = FuncV('list.__iter__', lambda p, a, k: IterV(lambda r: row_obj(mat, r), mat.length, 'iter(bools)'))
                st['allocated'] = mat
                return mat

            comps = comprehension_ordinals(PYL, 'load_file')
            nested = [nm for nm, node in comps if isinstance(node, ast.ListComp) and isinstance(node.elt, ast.ListComp)]
            loops_ = for_ordinals(PYL, 'load_file')
            outer_loops = [k for k, node in loops_ if any(isinstance(c, ast.For) for b in node.body for c in ast.walk(b))]
            inner_loops = [k for k, node in loops_ if k not in outer_loops]
            if len(nested) != 1 or len(outer_loops) != 1 or len(inner_loops) != 1:
                raise Unsupported('load_file: expected one nested list comprehension and one double loop')
            outer_loop, inner_loop = outer_loops[0], inner_loops[0]

            def sound(k, incl):
                Cell, wit = st['Cell'], st['wit']
                return ForAll([r_, i_], Implies(And(0 <= r_, r_ < n, 0 <= i_, i_ < m, Cell(r_, i_)),
                                               And(r_ <= k if incl else r_ < k, 0 <= wit(r_, i_), wit(r_, i_) < clen(r_), idx(r_, wit(r_, i_)) == i_)),
                              patterns=[Cell(r_, i_)])

            def complete(k):
                Cell = st['Cell']
                return ForAll([r_, t_], Implies(And(0 <= r_, r_ < k, 0 <= t_, t_ < clen(r_)), Cell(r_, idx(r_, t_))), patterns=[idx(r_, t_)])

            def outer_inv(e, k):
                return [('true-cell => its index is listed for the row (rows done so far)', sound(k, False)),
                        ('listed index => true cell (rows done so far)', complete(k))]

            def inner_inv(e, j):
                K = path.ghost['k#%d' % outer_loop]
                Cell = st['Cell']
                return [('true-cell => its index is listed for the row', sound(K, True)),
                        ('listed index => true cell (rows before this one)', complete(K)),
                        ('listed index => true cell (this row, positions done so far)',
                         ForAll([t_], Implies(And(0 <= t_, t_ < j), Cell(K, idx(K, t_))), patterns=[idx(K, t_)]))]
            ospec, ispec = LoopSpec(outer_inv), LoopSpec(inner_inv)
            ospec.havoc_objs = ispec.havoc_objs = [heap]

            def zip_(p, a, k):
                if len(a) == 2 and a[0] is st['allocated'] and st['allocated'] is not None:
                    mat, other = a
                    L = Int('zip.len!%d' % next(cnt))
                    p.assume(And(L >= 0, L <= mat.length, L <= other.length, Or(L == mat.length, L == other.length)))
                    st['L'] = L
                    return IterV(lambda t: TupleV([row_obj(mat, t), other.at(t)]), L, 'zip(bools, context)')
                return _zip(p, a, k)

            def serialized_args(p, a, k):
                o = ObjV('SerializedArgs', {}, name='SerializedArgs(...)')
                o.args, o.kw = a, k
                return o

            def finish(path, env_, outcome):
                if outcome[0] != 'return':
                    path.oblige('post/no-exception', 'post', BoolVal(False))
                    return
                okc = [c[0] for c in calls] == ['read', 'literal_eval'] and not calls[0][1] and calls[1][1] == [src] and not calls[1][2]
                path.oblige('post/parses-the-whole-file-with-ast.literal_eval', 'post', BoolVal(okc))
                res = outcome[1]
                ok = isinstance(res, ObjV) and res.cls == 'SerializedArgs' and len(res.args) == 3 and set(res.kw) == {'serialized'} \
                    and isinstance(res.args[2], IterV) and 'L' in st
                path.oblige('post/returns-SerializedArgs(objects, properties, bools, serialized=)', 'post', BoolVal(ok))
                if not ok:
                    return
                path.oblige('post/objects-properties-and-the-dict-as-parsed', 'post',
                            BoolVal(res.args[0] is objects and res.args[1] is properties and res.kw['serialized'] is args))
                bools = res.args[2]
                r, i, t = path.fresh_int('r'), path.fresh_int('i'), path.fresh_int('t')
                path.oblige('post/one-row-per-object', 'post', bools.length == n)
                path.assume(And(0 <= r, r < n))
                row = bools.at(r)
                okr = isinstance(row, SeqV) and isinstance(row.at(i), BoolV)
                path.oblige('post/rows-are-tuples-of-booleans', 'post', BoolVal(okr))
                if not okr:
                    return
                path.oblige('post/one-cell-per-property', 'post', row.length == m)
                L, Cell, wit = st['L'], st['Cell'], st['wit']
                path.oblige('post/rows-pair-with-the-context-entries-in-order (zip)', 'post', And(L <= n, L <= nc, Or(L == n, L == nc)))
                path.assume(And(0 <= i, i < m))
                cell = row.at(i).t
                # bools[r][i]  <=>  r < len(context) and i occurs in context[r]    (wit: the ghost position where it occurs)
                path.oblige('post/true-cell => the index is listed', 'post',
                            Implies(cell, And(r < L, 0 <= wit(r, i), wit(r, i) < clen(r), idx(r, wit(r, i)) == i)))
                path.oblige('post/listed index => true cell', 'post',
                            Implies(And(r < L, 0 <= t, t < clen(r), idx(r, t) == i), cell))
            g = base_globals(path)
            g.update(ast=astmod, zip=FuncV('zip', zip_), SerializedArgs=FuncV('SerializedArgs', serialized_args))
            return {'file': file}, {'globals': g, 'closed_form': {nested[0]: alloc_matrix}, outer_loop: ospec, inner_loop: ispec}, finish
        return text_axioms(), harness
    return make


register(Unit('formats.python_literal.load_file', PYL, 'load_file', _load_file_unit(),
              assumptions=["ast.literal_eval(file.read()) returns the dict args with the keys objects, properties, context (context: per row a sequence of ints)",
                           'REQUIRES 0 <= i < len(properties) for every index in context (i >= len: IndexError; negative i: silently addresses from the end - both required away)',
                           'nested list comprehension: a new row list per object (rows are distinct heap objects); zip pairs rows and context entries in order, stopping with the shorter',
                           'tuple(row): the cells of the row at that moment, in order'],
              linkage=[('concepts.formats.python_literal.load_file', None), ('concepts.formats.PythonLiteral.loadf', None)]))


# =====================================================================================================================
# python_literal.dump_file: the 'context' entry and the order of the sections

def render(v):
    """the text of a string value whose parts are all concrete (f-string of literals), else None"""
    if not isinstance(v, StrV):
        return None
    if v.value is not None:
        return v.value
    out = ''
    for part in v.parts or [None]:
        if part is None:
            return None
        if part[0] == 'lit':
            out += part[1]
            continue
        _, val, conv, spec = part
        s = render(val)
        if s is None or spec is not None or conv not in (-1, 114, 115):
            return None
        out += repr(s) if conv == 114 else s
    return out


def opaque_seq(name):
    """a sequence argument the function only passes on / iterates: elements are opaque items (name[t])"""
    o = ObjV('Arg', {}, name=name)
    o.length = Int('len(%s)' % name)

    def item(t):
        x = ObjV('item', {}, name='%s[%s]' % (name, t))
        x.of = (o, t)
        return x
    o.fields['__iter__'] = FuncV('iter', lambda p, a, k: IterV(item, o.length, 'iter(%s)' % name))
    return o


def _dump_file_unit(case):
    def make():
        _text_sort()
        Bv, blen = Function('bool', I, I, B), Function('len.bools.row', I, I)
        nrows = Int('rows')

        def harness(path):
            outer_out = path.out
            file = ObjV('Arg', {}, name='file')
            env = {'file': file}
            has_lattice = z3_bool('lattice_in_doc')
            if case == 'fresh':
                objects, properties = opaque_seq('objects'), opaque_seq('properties')

                def brow(r):
                    v = SeqV(lambda c: BoolV(Bv(r, c)), blen(r), 'bools[%s]' % r)
                    v.row = r
                    return v
                env.update(objects=objects, properties=properties, bools=IterV(brow, nrows, 'bools'))
                given = None
            else:
                env.update({nm: ObjV('Arg', {}, name=nm) for nm in ('objects', 'properties', 'bools')})
                given = ObjV('dict', {}, name='_serialized')
                entries = {k: opaque_seq("_serialized['%s']" % k) for k in ('objects', 'properties', 'context', 'lattice')}
                has = {k: z3_bool("'%s' in _serialized" % k) for k in ('objects', 'properties', 'context')}
                has['lattice'] = has_lattice
                # REQUIRES: the serialized form has the three mandatory keys (the assert of the function is an obligation under this)
                path.assume(And(has['objects'], has['properties'], has['context']))

                def contains(p, a, k):
                    key = a[-1]
                    if isinstance(key, StrV) and key.value is not None:
                        return BoolV(has[key.value]) if key.value in has else BoolV(False)
                    raise Unsupported('%r in _serialized' % (key,))

                def getitem(p, a, k):
                    key = a[-1]
                    if not (isinstance(key, StrV) and key.value is not None):
                        raise Unsupported('_serialized[%r]' % (key,))
                    if key.value in has and p.branch(has[key.value]):
                        return entries[key.value]
                    raise PyRaise('KeyError')
                given.fields['__contains__'] = FuncV('dict.__contains__', contains)
                given.fields['__getitem__'] = FuncV('dict.__getitem__', getitem)
                env['_serialized'] = given

            def enumerate_(p, a, k):
                (it,) = a
                r = IterV(lambda t: TupleV([IntV(t), it.at(t)]), it.length, 'enumerate(%s)' % it.name)
                r.row = getattr(it, 'row', None)
                return r

            def all_(p, a, k):
                (v,) = a
                if isinstance(v, (ListV, TupleV)):
                    return BoolV(And(*[truthy(x) for x in v.items]) if v.items else BoolVal(True))
                raise Unsupported('all of %r' % (v,))

            def repr_(p, a, k):
                o = ObjV('str', {}, name='repr(%s)' % (getattr(a[0], 'name', a[0]),))
                o.repr_of = a[0]
                return o
            reprf = FuncV('repr', repr_)

            def join(p, sep, it):
                v = StrV(None, parts=[('fmt', sep, -1, 'join'), ('fmt', it, -1, 'joined')])
                v.joined = (sep.value, it)
                return v

            class Block(ObjV):
                """`yield from <lines>` with a symbolic number of lines: all of them, in order"""

                def __init__(self, it):
                    ObjV.__init__(self, 'line-block', {}, name='lines')
                    self.it = it

            st = {'nw': IntVal(0), 'gens': []}

            def on_yield_from(p, env_, v):
                if isinstance(v, ObjV) and v.cls == 'generator':
                    p.out.extend(v.segs)
                elif isinstance(v, (IterV, SeqV)):
                    p.out.append(Block(v))
                else:
                    raise Unsupported('yield from %r' % (v,))

            def generator_closure(p, name, segs):
                # ASSUMPTION (checked: print raises Unsupported while a generator body runs): the nested generators have no side
                # effects, so running them to their end at the call yields the same lines as consuming them lazily
                gen = ObjV('generator', {}, name=name + '(...)')
                gen.segs = list(segs)
                gen.total = IntVal(0)
                for sg in gen.segs:
                    gen.total = gen.total + (sg.it.length if isinstance(sg, Block) else 1)

                def line(t):
                    o = ObjV('line', {}, name='%s[%s]' % (gen.name, t))
                    o.gen, o.gidx = gen, t
                    return o

                def iter_(p2, a, k):
                    if 'iterated' in st:
                        raise Unsupported('a second generator is consumed')
                    st['iterated'] = gen
                    return IterV(line, gen.total, gen.name)
                gen.fields['__iter__'] = FuncV('generator.__iter__', iter_)
                st['gens'].append(gen)
                return gen

            def print_(p, a, k):
                if p.out is not outer_out:
                    raise Unsupported('print inside a nested generator (the generators are evaluated eagerly: they must be pure)')
                ok = len(a) == 1 and isinstance(a[0], ObjV) and a[0].cls == 'line' and set(k) == {'file'} and k['file'] is file \
                    and a[0].gen is st.get('iterated')
                p.oblige('write/print(line, file=file) of a line of the generator', 'post', BoolVal(ok))
                if ok:
                    # the lines are written one by one, each once, in the order the generator yields them
                    p.oblige('write/the-next-line-of-the-generator', 'post', a[0].gidx == st['nw'])
                    st['nw'] = st['nw'] + 1
                return NONE
            printf = FuncV('print', print_)

            def partial(p, a, k):
                f, a0, k0 = a[0], list(a[1:]), dict(k)
                return FuncV('partial', lambda p2, a2, k2: p2.interp.call(f, a0 + list(a2), dict(k0, **k2)))
            loop = top_level_for(PYL, 'dump_file')
            spec = LoopSpec(lambda e, k: [('lines-written-so-far', st['nw'] == k)],
                            ghost_havoc=lambda p, env_: st.update(nw=p.fresh_int('written')))

            def describe(sg, t):
                """(kind, text / (indent, separator, function, source))"""
                if isinstance(sg, Block):
                    ln = sg.it.at(t)
                    if isinstance(ln, StrV) and ln.parts and len(ln.parts) == 3 and ln.parts[2] == ('lit', ',') and ln.parts[0][0] == 'fmt' \
                            and ln.parts[1][0] == 'fmt' and ln.parts[1][2:] == (-1, None) and getattr(ln.parts[1][1], 'repr_of', None) is not None:
                        return ('block', render(ln.parts[0][1]), ln.parts[1][1].repr_of)
                    return ('?',)
                if render(sg) is not None:
                    return ('text', render(sg))
                if isinstance(sg, StrV) and sg.parts and len(sg.parts) == 3 and sg.parts[2] == ('lit', ',') and sg.parts[0][0] == 'fmt' \
                        and sg.parts[1][0] == 'fmt' and sg.parts[1][2:] == (-1, None) and getattr(sg.parts[1][1], 'joined', None) is not None:
                    sep, m_ = sg.parts[1][1].joined
                    if isinstance(m_, ObjV) and m_.cls == 'map' and m_.fn is reprf:
                        return ('joined', render(sg.parts[0][1]), sep, m_.of)
                return ('?',)

            def element_of(x, src, t):
                """x is element t of the sequence src"""
                if isinstance(src, ObjV) and src.cls == 'Arg':
                    return isinstance(x, ObjV) and getattr(x, 'of', (None, None))[0] is src and x.of[1] is t
                return False

            def finish(path, env_, outcome):
                if outcome[0] != 'return':
                    path.oblige('post/no-exception', 'post', BoolVal(False))
                    return
                doc = env_.get('doc')
                t = path.fresh_int('t')
                if case == 'fresh':
                    ok = isinstance(doc, DictV) and list(doc.items) == ['objects', 'properties', 'context']
                    path.oblige('post/doc-has-exactly-the-keys-objects-properties-context', 'post', BoolVal(ok))
                    if not ok:
                        return
                    path.oblige('post/doc-objects-and-properties-as-given', 'post',
                                BoolVal(doc.items['objects'] is objects and doc.items['properties'] is properties))
                    ctx = doc.items['context']
                    okc = isinstance(ctx, IterV)
                    path.oblige('post/doc-context: a list', 'post', BoolVal(okc))
                    if not okc:
                        return
                    r, c = path.fresh_int('r'), path.fresh_int('c')
                    path.oblige('post/doc-context: one entry per row', 'post', ctx.length == nrows)
                    ent = ctx.at(r)
                    oke = isinstance(ent, FilterV) and getattr(ent.base, 'row', None) is not None and isinstance(ent.elt(c), IntV)
                    path.oblige('post/doc-context: entries are tuples of the filtered enumeration of the row', 'post', BoolVal(oke))
                    if oke:
                        # the ascending indexes of the true cells: the filter of enumerate(row r) by the cell, mapped to the index
                        path.oblige('post/doc-context: entry r = ascending indexes of the true cells of row r', 'post',
                                    And(ent.base.row == r, ent.base.length == blen(r), ent.cond(c) == Bv(r, c), ent.elt(c).t == c))
                    get = lambda key: doc.items.get(key)
                else:
                    path.oblige('post/doc-is-the-serialized-form', 'post', BoolVal(doc is given))
                    get = lambda key: entries[key]
                gen = st.get('iterated')
                okg = gen is not None and gen is st['gens'][-1]
                path.oblige('post/the-lines-of-the-last-generator-call-are-consumed-by-the-writing-loop', 'post', BoolVal(bool(okg)))
                if not okg:
                    return
                path.oblige('post/all-lines-of-the-generator-written-once-in-order', 'post', st['nw'] == gen.total)
                descr = [describe(sg, t) for sg in gen.segs]
                texts = [d[1] if d[0] == 'text' else None for d in descr]
                with_lattice = len(descr) == 14

                def section(i, key, brackets):
                    o, c_ = brackets
                    return texts[i] == "  %r: %s" % (key, o) and texts[i + 2] == "  %s," % c_
                ok = len(descr) in (11, 14) and texts[0] == '{' and texts[-1] == '}' \
                    and section(1, 'objects', '()') and section(4, 'properties', '()') and section(7, 'context', '[]') \
                    and (not with_lattice or section(10, 'lattice', '[]'))
                path.oblige("post/sections-in-order: '{', objects, properties, context, [lattice], '}'", 'post', BoolVal(ok))
                if not ok:
                    return
                if case == 'fresh':
                    path.oblige('post/no-lattice-section-without-the-key', 'post', BoolVal(not with_lattice))
                else:
                    path.oblige('post/lattice-section-iff-the-key-is-present', 'post', has_lattice == BoolVal(with_lattice))
                for i, key in ((2, 'objects'), (5, 'properties')):
                    d = descr[i]
                    path.oblige('post/section-%s: one line, the reprs of its entries joined by ", "' % key, 'post',
                                BoolVal(d[0] == 'joined' and d[1] == '    ' and d[2] == ', ' and d[3] is get(key)))
                for i, key in ((8, 'context'),) + (((11, 'lattice'),) if with_lattice else ()):
                    d, sg = descr[i], gen.segs[i]
                    okb, lens = d[0] == 'block' and d[1] == '    ', BoolVal(False)
                    if okb:
                        src = get(key)
                        s = _seq_of(path, src)
                        okb = s is not None and (element_of(d[2], src, t) or (isinstance(src, IterV) and _same_filter(d[2], src.at(t))))
                        if s is not None:
                            lens = sg.it.length == s.length
                    path.oblige('post/section-%s: one line per entry, the repr of the entry, in order' % key, 'post', And(BoolVal(bool(okb)), lens))
            g = base_globals(path)
            g.update(enumerate=FuncV('enumerate', enumerate_), all=FuncV('all', all_), repr=reprf, print=printf,
                     functools=ObjV('module', {'partial': FuncV('functools.partial', partial)}, name='functools'))
            return env, {'globals': g, 'str_join': join, 'on_yield_from': on_yield_from, 'yield_from_marker': False, 'generator_closure': generator_closure, loop: spec}, finish
        return text_axioms(), harness
    return make


def _same_filter(a, b):
    """two evaluations of the same filter closed form (same base row, same condition and element at a fresh position)"""
    if not (isinstance(a, FilterV) and isinstance(b, FilterV)):
        return False
    c = Int('c?')
    ra, rb = getattr(a.base, 'row', None), getattr(b.base, 'row', None)
    return ra is not None and rb is not None and ra.eq(rb) and a.cond(c).eq(b.cond(c)) and isinstance(a.elt(c), IntV) and a.elt(c).t.eq(b.elt(c).t)


for _c in ('fresh', 'serialized'):
    register(Unit('formats.python_literal.dump_file.' + _c, PYL, 'dump_file', _dump_file_unit(_c),
                  assumptions=['repr / str.join / f-strings / print are opaque texts of their operands (the characters written are bounded side, C12)',
                               'the nested generators are pure (checked: no print while they run): evaluating them at the call gives the lines lazy consumption gives',
                               'comprehension over enumerate(row) with a condition = filter in index order; functools.partial(f, **kw)(x) = f(x, **kw)'] +
                  (['REQUIRES _serialized is a dict with the keys objects, properties, context'] if _c == 'serialized' else []),
                  linkage=[('concepts.formats.python_literal.dump_file', None), ('concepts.formats.PythonLiteral.dumpf', None)]))
