"""Contracts for the list/iterator wrappers: algorithms.iterconcepts / get_concepts, _common.ConceptList.frompairs (C04).
Post: the same pairs as the generator, in the same order, each wrapped by Concept._make; get_concepts returns a list
allocated by this call (a later call is independent of edits of an earlier result); nothing is stored on the context."""
from z3 import And, BoolVal, Function, Int, IntSort

from pyvc.engine import ClassV, FuncV, IntV, IterV, NONE, ObjV, SeqV, TupleV, Unsupported, values_equal
from contracts import lib
from contracts.registry import Unit, register
from pyvc import bits

I = IntSort()


def _world(path):
    glen = Int('gen.len')
    gE, gI = Function('gen.E', I, I), Function('gen.I', I, I)
    path.assume(glen >= 0)
    stores, calls, allocs = [], [], []
    ctx = ObjV('Context', {}, name='context')
    ctx.fields['__setattr__'] = lambda p, o, attr, v: stores.append(attr)

    def gen(p, args, kw):
        calls.append((args, kw))
        return IterV(lambda t: TupleV([IntV(gE(t), 'Objects'), IntV(gI(t), 'Properties')]), glen, 'fast_generate_from(context)')

    def make(p, args, kw):
        (pair,) = args
        if not (isinstance(pair, TupleV) and len(pair.items) == 2):
            raise Unsupported('Concept._make of %r' % (pair,))
        return ObjV('ConceptNT', {'extent': pair.items[0], 'intent': pair.items[1]})

    def map_(p, args, kw):
        f, it = args
        if not isinstance(it, (IterV, SeqV)):
            raise Unsupported('map over %r' % (it,))
        return IterV(lambda t: f.fn(p, [it.at(t)], {}), it.length, 'map(%s)' % it.name)
    Concept = ObjV('class', {'_make': FuncV('Concept._make', make)}, name='Concept')

    def conceptlist(p, args, kw):
        (it,) = args
        if not isinstance(it, (IterV, SeqV)):
            raise Unsupported('ConceptList(%r)' % (it,))
        o = ObjV('ConceptList', {}, name='ConceptList#%d' % len(allocs))
        o.seq = it
        allocs.append(o)
        return o
    CL = ObjV('class', {'__call__': FuncV('ConceptList', lambda p, args, kw: conceptlist(p, args[1:], kw))}, name='ConceptList')

    def frompairs(p, args, kw):
        # contract of ConceptList.frompairs (proved in unit common.frompairs)
        (it,) = args
        return conceptlist(p, [map_(p, [Concept.fields['_make'], it], {})], {})
    CL.fields['frompairs'] = FuncV('ConceptList.frompairs', frompairs)
    g = dict(lib.builtins(), fast_generate_from=FuncV('fast_generate_from', gen), map=FuncV('map', map_), Concept=Concept,
             ConceptList=CL)
    return dict(glen=glen, gE=gE, gI=gI, stores=stores, calls=calls, allocs=allocs, ctx=ctx, g=g, CL=CL)


def _check_elements(path, W, seq, tag):
    t = path.fresh_int('t')
    path.oblige('post/%s-length' % tag, 'post', seq.length == W['glen'])
    path.assume(And(0 <= t, t < W['glen']))
    el = seq.at(t)
    ok = isinstance(el, ObjV) and el.cls == 'ConceptNT'
    path.oblige('post/%s-elements' % tag, 'post',
                And(el.fields['extent'].t == W['gE'](t), el.fields['intent'].t == W['gI'](t)) if ok else BoolVal(False))


def _wrapper_unit(name):
    def make():
        def harness(path):
            W = _world(path)
            if name == 'frompairs':
                arg = IterV(lambda t: TupleV([IntV(W['gE'](t), 'Objects'), IntV(W['gI'](t), 'Properties')]), W['glen'], 'pairs')
                env = {'cls': W['CL'], 'iterconcepts': arg}
            else:
                env = {'context': W['ctx']}

            def finish(path, env_, outcome):
                if outcome[0] != 'return':
                    path.oblige('post/no-exception', 'post', BoolVal(False))
                    return
                val = outcome[1]
                path.oblige('frame/nothing-stored-on-context', 'frame', BoolVal(not W['stores']))
                if name != 'frompairs':
                    ok = len(W['calls']) == 1 and len(W['calls'][0][0]) == 1 and W['calls'][0][0][0] is W['ctx'] and not W['calls'][0][1]
                    path.oblige('post/one-generator-call-on-context', 'post', BoolVal(ok))
                if name == 'iterconcepts':
                    ok = isinstance(val, IterV)
                    path.oblige('post/iterator', 'post', BoolVal(ok))
                    if ok:
                        _check_elements(path, W, val, 'iterator')
                else:
                    ok = isinstance(val, ObjV) and val.cls == 'ConceptList'
                    path.oblige('post/ConceptList', 'post', BoolVal(ok))
                    if ok:
                        path.oblige('fresh/list-allocated-by-this-call', 'fresh', BoolVal(len(W['allocs']) == 1 and val is W['allocs'][0]))
                        _check_elements(path, W, val.seq, 'list')
            return env, {'globals': W['g']}, finish
        return bits.axioms(), harness
    return make


register(Unit('algorithms.iterconcepts', 'concepts/algorithms/__init__.py', 'iterconcepts', _wrapper_unit('iterconcepts'),
              assumptions=['builtin map: same elements, same order'], linkage=[('concepts.algorithms.iterconcepts', None)]))
register(Unit('algorithms.get_concepts', 'concepts/algorithms/__init__.py', 'get_concepts', _wrapper_unit('get_concepts'),
              assumptions=['contract of ConceptList.frompairs (unit common.frompairs)'], linkage=[('concepts.algorithms.get_concepts', None)]))
register(Unit('common.frompairs', 'concepts/_common.py', 'ConceptList.frompairs', _wrapper_unit('frompairs'),
              assumptions=['builtin map, list constructor: same elements, same order, new list'],
              linkage=[('concepts._common.ConceptList.frompairs', None)]))
