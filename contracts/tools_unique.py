"""Contracts for concepts/tools.py: class Unique (C13/C14), and the stdlib mixin methods it inherits
(_collections_abc.MutableSet.remove / __ior__, read from the running interpreter's source file).

Abstract view of a Unique u:  items(u) : Seq (duplicate-free), with  WF(u): u._seen = set(u._items), nodup(u._items),
u._seen and u._items distinct heap objects.  Every method: requires WF, ensures WF and the stated change of the view;
on an exceptional exit the view and both containers are unchanged.
"""
from z3 import And, BoolVal, Const, ForAll, If, Implies, Int, Not, Or, Select, Store

from pyvc import bits, seqs
from pyvc.seqs import Name, NSet, Seq
from pyvc.engine import BoolV, ClassV, FuncV, IntV, IterV, LoopSpec, NONE, ObjV, PyRaise, TermV, TupleV, Unsupported, truthy
from contracts import lib
from contracts.heap import ListObj, SetObj, fresh_name, fresh_seq, name_of, wf_unique
from contracts.registry import Unit, register

STDLIB = None      # filled by stdlib_path()


def axioms():
    return bits.axioms() + seqs.axioms()


def make_unique(path, name='self', record=False, methods=None):
    """A Unique in an arbitrary well-formed state (pre-state object unless record=True)."""
    s = fresh_seq(path, name + '._items')
    S = Const('%s._seen!%d' % (name, next(path.eng.counter)), NSet)
    path.assume(wf_unique(s, S))
    u = ObjV('Unique', {}, name=name)
    u.fields['_seen'] = SetObj(path, S, name + '._seen', record=record)
    u.fields['_items'] = ListObj(path, s, name + '._items', record=record)
    u.items0, u.seen0 = s, S
    u.seen_obj0, u.items_obj0 = u.fields['_seen'], u.fields['_items']
    if methods:
        methods(path, u)
    return u


def view(u):
    return u.fields['_items'].s, u.fields['_seen'].S


def post_wf(path, u, tag='self'):
    s, S = view(u)
    path.oblige('post/WF(%s)' % tag, 'post', wf_unique(s, S))
    path.oblige('frame/%s-containers-kept' % tag, 'frame',
                BoolVal(u.fields['_seen'] is u.seen_obj0 and u.fields['_items'] is u.items_obj0
                        and set(u.fields) <= {'_seen', '_items'} | set(getattr(u, 'method_names', ()))))


def post_unchanged(path, u, tag='self'):
    s, S = view(u)
    path.oblige('post/%s-unchanged-on-raise' % tag, 'post', And(s == u.items0, S == u.seen0))


def _unit(qual, body, extra_axioms=None):
    """body(path) -> (env, loops_extra, finish)"""
    def make():
        def harness(path):
            env, extra, finish = body(path)
            loops = {'globals': lib.builtins()}
            loops.update(extra or {})
            return env, loops, finish
        return axioms() + (extra_axioms() if extra_axioms else []), harness
    return make


# ---- add / discard

def _add(path):
    u = make_unique(path)
    x = fresh_name(path, 'item')

    def finish(path, env, outcome):
        if outcome[0] != 'return':
            path.oblige('post/no-exception', 'post', BoolVal(False))
            return
        post_wf(path, u)
        path.oblige('post/view', 'post', view(u)[0] == seqs.add1(u.items0, x.t))
    return {'self': u, 'item': x}, None, finish


def _discard(path):
    u = make_unique(path)
    x = fresh_name(path, 'item')

    def finish(path, env, outcome):
        if outcome[0] != 'return':
            path.oblige('post/no-exception', 'post', BoolVal(False))
            return
        post_wf(path, u)
        path.oblige('post/view', 'post', view(u)[0] == If(seqs.mem(u.items0, x.t), seqs.erase(u.items0, x.t), u.items0))
    return {'self': u, 'item': x}, None, finish


def _replace(path):
    u = make_unique(path)
    old, new = fresh_name(path, 'item'), fresh_name(path, 'new_item')
    ok = And(seqs.mem(u.items0, old.t), Not(seqs.mem(u.items0, new.t)))

    def finish(path, env, outcome):
        if outcome[0] == 'raise':
            # new present (also new = old) or old unknown -> ValueError, nothing changed
            path.oblige('post/raises-ValueError-iff-rejected', 'post', And(BoolVal(outcome[1] == 'ValueError'), Not(ok)))
            post_unchanged(path, u)
            return
        path.oblige('post/accepted', 'post', ok)
        post_wf(path, u)
        # replaced in place: position kept
        path.oblige('post/view', 'post', view(u)[0] == seqs.set_at(u.items0, seqs.idx(u.items0, old.t), new.t))
    return {'self': u, 'item': old, 'new_item': new}, None, finish


def _move(path):
    u = make_unique(path)
    x = fresh_name(path, 'item')
    i = Int('new_index')

    def finish(path, env, outcome):
        if outcome[0] == 'raise':
            path.oblige('post/raises-ValueError-iff-unknown', 'post',
                        And(BoolVal(outcome[1] == 'ValueError'), Not(seqs.mem(u.items0, x.t))))
            post_unchanged(path, u)
            return
        path.oblige('post/accepted', 'post', seqs.mem(u.items0, x.t))
        post_wf(path, u)
        # L.remove(x); L.insert(i, x) with python's list semantics -- unless x is already at index i
        path.oblige('post/view', 'post',
                    view(u)[0] == If(seqs.idx(u.items0, x.t) == i, u.items0, seqs.ins_at(seqs.erase(u.items0, x.t), i, x.t)))
    return {'self': u, 'item': x, 'new_index': IntV(i)}, None, finish


# ---- _fromargs / copy

def super_new(path):
    def _super(p, args, kw):
        o = ObjV('super', {}, name='super()')

        def new(p2, a2, k2):
            cls = a2[-1]
            inst = ObjV(getattr(cls, 'name', None) or 'object', {}, name='new-instance')
            p2.ghost.setdefault('allocs', []).append(inst)
            inst.seen_obj0 = inst.items_obj0 = None
            return inst
        o.fields['__new__'] = FuncV('object.__new__', new)
        return o
    return FuncV('super', _super)


def fromargs_contract(cls_name='Unique'):
    """post of Unique._fromargs (proved in unit tools.Unique._fromargs): a new instance holding exactly the two arguments"""
    def f(p, args, kw):
        seen, items = args[-2], args[-1]
        inst = ObjV(cls_name, {'_seen': seen, '_items': items}, name='Unique#%d' % next(p.eng.counter))
        p.ghost.setdefault('allocs', []).append(inst)
        inst.seen_obj0, inst.items_obj0 = seen, items
        return inst
    fv = FuncV('Unique._fromargs', f)
    return fv


def _fromargs(path):
    seen = SetObj(path, Const('seen_arg', NSet), '_seen_arg', record=False)
    items = ListObj(path, fresh_seq(path, 'items_arg'), '_items_arg', record=False)
    cls = ObjV('class', {}, name='Unique')

    def finish(path, env, outcome):
        if outcome[0] != 'return':
            path.oblige('post/no-exception', 'post', BoolVal(False))
            return
        r = outcome[1]
        ok = isinstance(r, ObjV) and r in path.ghost.get('allocs', []) and r.fields.get('_seen') is seen \
            and r.fields.get('_items') is items and set(r.fields) == {'_seen', '_items'} and r.cls == 'Unique'
        path.oblige('post/new-instance-holding-the-arguments', 'post', BoolVal(ok))
    return {'cls': cls, '_seen': seen, '_items': items}, {'globals': dict(lib.builtins(), super=super_new(path))}, finish


def _copy(path):
    u = make_unique(path)
    f = fromargs_contract()
    f.is_method = True
    u.fields['_fromargs'] = f
    u.method_names = ('_fromargs',)

    def finish(path, env, outcome):
        if outcome[0] != 'return':
            path.oblige('post/no-exception', 'post', BoolVal(False))
            return
        r = outcome[1]
        allocs = path.ghost.get('allocs', [])
        ok = isinstance(r, ObjV) and r.cls == 'Unique' and r in allocs
        path.oblige('fresh/result', 'fresh', BoolVal(ok))
        if not ok:
            return
        # freshness: the copy shares no mutable container with its source
        path.oblige('fresh/result._seen', 'fresh', BoolVal(r.fields['_seen'] in allocs and r.fields['_seen'] is not u.fields['_seen']))
        path.oblige('fresh/result._items', 'fresh', BoolVal(r.fields['_items'] in allocs and r.fields['_items'] is not u.fields['_items']))
        path.oblige('fresh/containers-distinct', 'fresh', BoolVal(r.fields['_seen'] is not r.fields['_items']))
        path.oblige('post/same-view', 'post', And(r.fields['_items'].s == u.items0, r.fields['_seen'].S == u.seen0))
        post_wf(path, u)
        path.oblige('post/source-unchanged', 'post', And(view(u)[0] == u.items0, view(u)[1] == u.seen0))
    return {'self': u}, None, finish


# ---- trivial observers

def _observer(which):
    def body(path):
        u = make_unique(path)
        x = fresh_name(path, 'item')
        env = {'self': u}
        if which == '__contains__':
            env['item'] = x

        def _iter(p, args, kw):
            (o,) = args
            if isinstance(o, ObjV) and '__iter__' in o.fields:
                return o.fields['__iter__'].fn(p, [o], {})
            raise Unsupported('iter of %r' % (o,))

        def finish(path, env_, outcome):
            if outcome[0] != 'return':
                path.oblige('post/no-exception', 'post', BoolVal(False))
                return
            r = outcome[1]
            if which == '__contains__':
                path.oblige('post/membership', 'post', truthy(r) == seqs.mem(u.items0, x.t))
            elif which == '__len__':
                path.oblige('post/length', 'post', And(BoolVal(isinstance(r, IntV)), r.t == seqs.slen(u.items0)) if isinstance(r, IntV) else BoolVal(False))
            else:
                ok = isinstance(r, IterV)
                t = path.fresh_int('t')
                path.oblige('post/iterates-items-in-order', 'post',
                            And(r.length == seqs.slen(u.items0), r.at(t).t == seqs.at(u.items0, t)) if ok else BoolVal(False))
            post_wf(path, u)
            path.oblige('post/unchanged', 'post', And(view(u)[0] == u.items0, view(u)[1] == u.seen0))
        return env, {'globals': dict(lib.builtins(), iter=FuncV('iter', _iter))}, finish
    return body


# ---- stdlib mixins: MutableSet.remove, MutableSet.__ior__  (real source of the running interpreter)

def unique_methods_by_contract(path, u):
    """Unique.add / discard / __contains__ as callees (contracts proved in units tools.Unique.*)."""
    def add(p, args, kw):
        x = name_of(args[-1])
        s, S = view(u)
        u.fields['_items'].s = seqs.add1(s, x)
        u.fields['_seen'].S = Store(S, x, True)
        return NONE

    def discard(p, args, kw):
        x = name_of(args[-1])
        s, S = view(u)
        u.fields['_items'].s = If(seqs.mem(s, x), seqs.erase(s, x), s)
        u.fields['_seen'].S = Store(S, x, False)
        return NONE

    def contains(p, args, kw):
        return BoolV(seqs.mem(view(u)[0], name_of(args[-1])))
    for nm, fn in (('add', add), ('discard', discard), ('__contains__', contains)):
        f = FuncV('Unique.' + nm, fn)
        f.is_method = True
        u.fields[nm] = f
    u.method_names = ('add', 'discard', '__contains__')


def _ms_remove(path):
    u = make_unique(path, methods=unique_methods_by_contract)
    x = fresh_name(path, 'value')

    def finish(path, env, outcome):
        if outcome[0] == 'raise':
            path.oblige('post/KeyError-iff-absent', 'post', And(BoolVal(outcome[1] == 'KeyError'), Not(seqs.mem(u.items0, x.t))))
            post_unchanged(path, u)
            return
        path.oblige('post/accepted', 'post', seqs.mem(u.items0, x.t))
        path.oblige('post/view', 'post', view(u)[0] == seqs.erase(u.items0, x.t))
    return {'self': u, 'value': x}, None, finish


def _ms_ior(path):
    u = make_unique(path, methods=unique_methods_by_contract)
    xs = fresh_seq(path, 'it')
    it = IterV(lambda k: TermV(seqs.at(xs, k)), seqs.slen(xs), 'it')

    def inv(e, k):
        # after k elements: the view is the fold of add1 over the first k elements -- new names appended in the order given
        return [('view', view(u)[0] == seqs.fold_add(u.items0, xs, k))]
    spec = LoopSpec(inv)
    spec.havoc_objs = [u.fields['_items'], u.fields['_seen']]

    def finish(path, env, outcome):
        if outcome[0] != 'return':
            path.oblige('post/no-exception', 'post', BoolVal(False))
            return
        path.oblige('post/returns-self', 'post', BoolVal(outcome[1] is u))
        path.oblige('post/view', 'post', view(u)[0] == seqs.fold_add(u.items0, xs, seqs.slen(xs)))
    return {'self': u, 'it': it}, {0: spec}, finish


def _ms_isub(path):
    """MutableSet.__isub__(self, it) for `it is not self` (the aliased call `u -= u` takes the `self.clear()` branch: Unique has no
    pop(), not modelled -- the contract used at the calls rejects it): every item of `it` is discarded, in the order given."""
    from contracts.definitions import NameSeqArg
    u = make_unique(path, methods=unique_methods_by_contract)
    it = NameSeqArg(path, 'it')
    xs = it.s

    def inv(e, k):
        # after k elements: the view is the fold of discard over the first k elements
        return [('view', view(u)[0] == seqs.discard_fold(u.items0, xs, k))]
    spec = LoopSpec(inv)
    spec.havoc_objs = [u.fields['_items'], u.fields['_seen']]

    def finish(path, env, outcome):
        if outcome[0] != 'return':
            path.oblige('post/no-exception', 'post', BoolVal(False))
            return
        path.oblige('post/returns-self', 'post', BoolVal(outcome[1] is u))
        path.oblige('post/view', 'post', view(u)[0] == seqs.discard_fold(u.items0, xs, seqs.slen(xs)))
        path.oblige('post/argument-unchanged', 'post', it.s == xs)
    return {'self': u, 'it': it}, {0: spec}, finish


def stdlib_path():
    import sysconfig
    import os
    # the interpreter that runs the library: /venv/bin/python (3.12); its stdlib location is recorded by setup
    for cand in ('/root/.pyenv/versions/3.12.1/lib/python3.12/_collections_abc.py',):
        if os.path.exists(cand):
            return cand
    return None


T = 'concepts/tools.py'
for _q, _b in (('add', _add), ('discard', _discard), ('replace', _replace), ('move', _move), ('_fromargs', _fromargs), ('copy', _copy),
               ('__contains__', _observer('__contains__')), ('__len__', _observer('__len__')), ('__iter__', _observer('__iter__'))):
    register(Unit('tools.Unique.' + _q, T, 'Unique.' + _q, _unit(_q, _b),
                  assumptions=['A-HEAP; contracts of builtin list/set methods as the algebraic SEQ/SET theory (pyvc/seqs.py, validated against CPython lists)',
                               'requires WF(self)'],
                  linkage=[('concepts.tools.Unique.' + _q, None)]))

_SP = stdlib_path()
if _SP:
    for _q, _b in (('remove', _ms_remove), ('__ior__', _ms_ior), ('__isub__', _ms_isub)):
        register(Unit('stdlib.MutableSet.' + _q, 'ABS:' + _SP, 'MutableSet.' + _q,
                      _unit(_q, _b, seqs.discard_axioms if _q == '__isub__' else None),
                      assumptions=['the stdlib mixin source of the interpreter that runs the library (3.12.1) is read like repository code',
                                   'contracts of Unique.add/discard/__contains__ (units tools.Unique.*)'],
                      linkage=[('concepts.tools.Unique.' + _q, None)]))


# ---- Unique.__init__ / issuperset

class SeqAcc:
    """ghost accumulator of a list comprehension producing labels"""

    def __init__(self, path):
        self.acc0 = seqs.empty

    def fresh_acc(self, p):
        return fresh_seq(p, 'acc')

    def extend(self, acc, elt):
        return seqs.app(acc, name_of(elt))

    def result(self, p, acc):
        return ListObj(p, acc, 'comprehension-result')


def _init(path):
    from contracts.definitions import NameSeqArg
    this = ObjV('Unique', {}, name='self')
    xs = NameSeqArg(path, 'iterable')
    made = []

    def set_(p, args, kw):
        if args:
            raise Unsupported('set(...) with an argument')
        st = SetObj(p, Const('emptyset!%d' % next(p.eng.counter), NSet), 'seen')
        x = Const('x', Name)
        p.assume(ForAll([x], Not(Select(st.S, x)), patterns=[Select(st.S, x)]))
        made.append(st)
        return st
    acc = SeqAcc(path)

    def inv(e, k, A):
        S = made[0].S
        x = Const('x', Name)
        # after k elements: the kept items are the fold of add1 (names in the order given, without repeats) and `seen` is their set
        return [('items', A == seqs.fold_add(seqs.empty, xs.s, k)),
                ('seen', ForAll([x], Select(S, x) == seqs.mem(A, x), patterns=[Select(S, x), seqs.mem(A, x)])),
                ('nodup', seqs.nodup(A))]
    acc.invariant = inv
    acc.havoc = lambda p: made[0].havoc(p)

    def finish(path, env, outcome):
        if outcome[0] != 'return':
            path.oblige('post/no-exception', 'post', BoolVal(False))
            return
        ok = len(made) == 1 and this.fields.get('_seen') is made[0] and isinstance(this.fields.get('_items'), ListObj) \
            and set(this.fields) == {'_seen', '_items'}
        path.oblige('post/fields', 'post', BoolVal(ok))
        if ok:
            s, S = this.fields['_items'].s, this.fields['_seen'].S
            path.oblige('post/WF', 'post', wf_unique(s, S))
            path.oblige('post/names-in-the-order-given-without-repeats', 'post', s == seqs.fold_add(seqs.empty, xs.s, seqs.slen(xs.s)))
    return ({'self': this, 'iterable': xs}, {'globals': dict(lib.builtins(), set=FuncV('set', set_)),
                                             'comprehension_loops': {'ListComp#0': acc}}, finish)


def _issuperset(path):
    from contracts.definitions import NameSeqArg
    u = make_unique(path)
    xs = NameSeqArg(path, 'items')

    def finish(path, env, outcome):
        if outcome[0] != 'return':
            path.oblige('post/no-exception', 'post', BoolVal(False))
            return
        t = Int('t')
        spec = ForAll([t], Implies(And(0 <= t, t < seqs.slen(xs.s)), seqs.mem(u.items0, seqs.at(xs.s, t))), patterns=[seqs.at(xs.s, t)])
        path.oblige('post/every-item-present', 'post', truthy(outcome[1]) == spec)
        path.oblige('post/unchanged', 'post', And(view(u)[0] == u.items0, view(u)[1] == u.seen0))
    # should the function be written as an explicit loop with an early `return False`: its invariant (stated over the ghost
    # index only, no local names): every item before position k is present
    t = Int('t')
    loop = LoopSpec(lambda e, k: [('all-present-so-far', ForAll([t], Implies(And(0 <= t, t < k), seqs.mem(u.items0, seqs.at(xs.s, t))),
                                                                 patterns=[seqs.at(xs.s, t)]))])
    return {'self': u, 'items': xs}, {0: loop}, finish


from z3 import Implies  # noqa: E402

register(Unit('tools.Unique.__init__', T, 'Unique.__init__', _unit('__init__', _init),
              assumptions=['the comprehension with the side-effecting condition is executed as a loop with an invariant over the kept items',
                           'set(): a new empty set; bound method seen.add'],
              linkage=[('concepts.tools.Unique.__init__', None)]))
register(Unit('tools.Unique.issuperset', T, 'Unique.issuperset', _unit('issuperset', _issuperset),
              assumptions=['builtins all / map (lazy, element-wise)'], linkage=[('concepts.tools.Unique.issuperset', None)]))
