"""C14, agreement clauses: Context <-> Definition round trip, shape, fill_ratio, table string and crc32; involution lemmas.

The functions are thin wrappers; their contracts are call traces ("returns F(self.objects, self.properties, self.bools)") so that
the agreement statements become corollaries over contracts:
  Context.definition()            = Definition(ctx.objects, ctx.properties, ctx.bools), a NEW definition
  Definition.__iter__             yields objects, properties, bools  (so Context(*d) receives exactly the triple of d)
  shape (both)                    = Shape._from_pair(objects, properties) = Shape(len(objects), len(properties))
  tostring (both)                 = Format[frmat].dumps(objects, properties, bools, **kwargs)   -- the same function of an equal triple
  crc32 (both)                    = tools.crc32_hex(self.tostring().encode(encoding))
  fill_ratio (both)               = Fraction(number of true cells, shape.size)
  round trip                      d == Definition(*Context(*d)) by lemma.fresh_equal + faithfulness of Context (C19) ; vice versa by Context.__eq__
  lemma.involution                transposed(transposed(d)) and inverted(inverted(d)) have the view of d (over the posts of the units
                                  definitions.transposed / definitions.inverted)
"""
from z3 import And, BoolVal, Const, ForAll, Function, Int, IntSort, Not, Select

from pyvc import bits, seqs
from pyvc.engine import BoolV, DictV, FuncV, IntV, IterV, NONE, ObjV, SeqV, StrV, TupleV, Unsupported
from contracts import lib
from contracts.registry import Unit, register

CX, DF, CM = 'concepts/contexts.py', 'concepts/definitions.py', 'concepts/_common.py'


class Rec:
    def __init__(self):
        self.calls = []

    def func(self, name, result=None, method=False):
        def f(p, args, kw):
            r = result(p, args, kw) if callable(result) else ObjV('Result', {}, name='result-of-' + name)
            self.calls.append((name, list(args), dict(kw), r))
            return r
        fv = FuncV(name, f)
        return fv


def _marker(name, **fields):
    return ObjV('Arg', dict(fields), name=name)


def _unit(setup, star_self=False):
    """setup(path, rec) -> (env, globals_extra, check(path, outcome, rec) -> [(name, formula)])"""
    def make():
        def harness(path):
            rec = Rec()
            env, gx, check = setup(path, rec)
            g = dict(lib.builtins())
            g.update(gx)

            def finish(path, env_, outcome):
                for nm, f in check(path, outcome, rec):
                    path.oblige('post/' + nm, 'post', f)
            return env, {'globals': g}, finish
        return bits.axioms(), harness
    return make


def _triple_self(cls):
    o, pr, b = _marker('self.objects'), _marker('self.properties'), _marker('self.bools')
    this = ObjV(cls, {'objects': o, 'properties': pr, 'bools': b}, name='self')
    this.unpack_items = [o, pr, b]      # contract of Definition.__iter__ (unit definitions.__iter__)
    return this, (o, pr, b)


def _returned(outcome, rec, name):
    return outcome[0] == 'return' and rec.calls and rec.calls[-1][0] == name and outcome[1] is rec.calls[-1][3]


# ---- Context.definition
def _definition(path, rec):
    this, tr = _triple_self('Context')
    definitions = ObjV('module', {'Definition': rec.func('Definition')}, name='definitions')

    def check(path, outcome, rec):
        ok = _returned(outcome, rec, 'Definition') and len(rec.calls) == 1
        out = [('a-new-Definition-built-by-this-call', BoolVal(bool(ok)))]
        if ok:
            a, k = rec.calls[0][1], rec.calls[0][2]
            out.append(('from-the-context-triple-in-order', BoolVal(len(a) == 3 and not k and all(x is y for x, y in zip(a, tr)))))
        return out
    return {'self': this}, {'definitions': definitions}, check


register(Unit('contexts.definition', CX, 'Context.definition', _unit(_definition),
              assumptions=['contract of Definition.__init__ (unit definitions.__init__): a new definition with the given table'],
              linkage=[('type(ctx).definition', None)]))


# ---- Definition.__iter__
def _iter(path, rec):
    this, tr = _triple_self('Definition')

    def check(path, outcome, rec):
        out = path.out
        return [('yields-objects-properties-bools', BoolVal(outcome[0] == 'return' and len(out) == 3 and all(x is y for x, y in zip(out, tr))))]
    return {'self': this}, {}, check


register(Unit('definitions.__iter__', DF, 'Triple.__iter__', _unit(_iter), assumptions=['the observables objects/properties/bools (units definitions.objects ...)'],
              linkage=[('concepts.Definition.__iter__', None)]))


# ---- shape (both) and Shape._from_pair / size
def _shape(cls):
    def setup(path, rec):
        this, tr = _triple_self(cls)
        common = ObjV('module', {'Shape': ObjV('class', {'_from_pair': rec.func('Shape._from_pair')}, name='Shape')}, name='_common')

        def check(path, outcome, rec):
            ok = _returned(outcome, rec, 'Shape._from_pair') and len(rec.calls) == 1
            a = rec.calls[0][1] if ok else []
            return [('Shape-of-objects-and-properties', BoolVal(bool(ok) and len(a) == 2 and a[0] is tr[0] and a[1] is tr[1] and not rec.calls[0][2]))]
        return {'self': this}, {'_common': common}, check
    return setup


register(Unit('contexts.shape', CX, 'Context.shape', _unit(_shape('Context')), assumptions=['lazyproperty: computed once per context (unit tools.lazyproperty.__get__)'],
              linkage=[('type(ctx).__dict__["shape"].fget', None)]))
register(Unit('definitions.shape', DF, 'Definition.shape', _unit(_shape('Definition')), assumptions=[],
              linkage=[('concepts.Definition.shape.fget', None)]))


def _from_pair(path, rec):
    no, npr = path.fresh_int('len(objects)'), path.fresh_int('len(properties)')
    o = _marker('objects', __len__=FuncV('len', lambda p, a, k: IntV(no)))
    pr = _marker('properties', __len__=FuncV('len', lambda p, a, k: IntV(npr)))
    cls = rec.func('cls')

    def check(path, outcome, rec):
        ok = _returned(outcome, rec, 'cls') and len(rec.calls) == 1
        a = rec.calls[0][1] if ok else []
        okk = ok and len(a) == 2 and not rec.calls[0][2] and all(isinstance(x, IntV) for x in a)
        return [('Shape(len(objects), len(properties))', And(a[0].t == no, a[1].t == npr) if okk else BoolVal(False))]
    return {'cls': cls, 'objects': o, 'properties': pr}, {}, check


register(Unit('_common.Shape._from_pair', CM, 'Shape._from_pair', _unit(_from_pair), assumptions=['NamedTuple constructor stores the two fields'],
              linkage=[('concepts._common.Shape._from_pair', None)]))


def _size(path, rec):
    a, b = path.fresh_int('objects'), path.fresh_int('properties')
    this = ObjV('Shape', {'objects': IntV(a), 'properties': IntV(b)}, name='self')

    def check(path, outcome, rec):
        ok = outcome[0] == 'return' and isinstance(outcome[1], IntV)
        return [('objects-times-properties', (outcome[1].t == a * b) if ok else BoolVal(False))]
    return {'self': this}, {}, check


register(Unit('_common.Shape.size', CM, 'Shape.size', _unit(_size), assumptions=[], linkage=[('concepts._common.Shape.size.fget', None)]))


# ---- tostring (both)
def _tostring(cls):
    def setup(path, rec):
        this, tr = _triple_self(cls)
        frm = _marker('frmat')
        fmt = ObjV('FormatClass', {}, name='Format[frmat]')
        fmt.fields['dumps'] = rec.func('dumps')
        pyl = ObjV('FormatClass', {}, name='PythonLiteral')
        Format = ObjV('FormatMeta', {'__getitem__': rec.func('Format.__getitem__', lambda p, a, k: fmt)}, name='Format')
        formats = ObjV('module', {'Format': Format, 'PythonLiteral': pyl}, name='formats')
        extra = DictV({'indent': _marker('kwargs[indent]')})

        def check(path, outcome, rec):
            names = [c[0] for c in rec.calls]
            ok = _returned(outcome, rec, 'dumps') and names == ['Format.__getitem__', 'dumps']
            out = [('returns-Format[frmat].dumps(...)', BoolVal(bool(ok)))]
            if ok:
                g, d = rec.calls
                out.append(('format-looked-up-by-name', BoolVal(g[1][-1] is frm)))
                out.append(('dumps-gets-the-triple-and-the-keyword-arguments',
                            BoolVal(len(d[1]) == 3 and all(x is y for x, y in zip(d[1], tr)) and set(d[2]) == {'indent'}
                                    and d[2]['indent'] is extra.items['indent'])))
            return out
        return {'self': this, 'frmat': frm, 'kwargs': extra}, {'formats': formats}, check
    return setup


register(Unit('definitions.tostring', DF, 'FormattingMixin.tostring', _unit(_tostring('Definition')),
              assumptions=['*self: the items Definition.__iter__ yields (unit definitions.__iter__)'],
              linkage=[('concepts.Definition.tostring', None)]))


# ---- crc32 (both)
def _crc32(cls):
    def setup(path, rec):
        this, tr = _triple_self(cls)
        enc = _marker('encoding')
        text = ObjV('str', {}, name='self.tostring()')
        text.fields['encode'] = rec.func('str.encode')
        m = rec.func('tostring', lambda p, a, k: text)
        m.is_method = True
        this.fields['tostring'] = m
        tools = ObjV('module', {'crc32_hex': rec.func('crc32_hex')}, name='tools')

        def check(path, outcome, rec):
            names = [c[0] for c in rec.calls]
            ok = _returned(outcome, rec, 'crc32_hex') and names == ['tostring', 'str.encode', 'crc32_hex']
            out = [('crc32_hex(self.tostring().encode(encoding))', BoolVal(bool(ok)))]
            if ok:
                t, e, c = rec.calls
                out.append(('default-table-string', BoolVal(len(t[1]) <= 1 and not t[2])))
                out.append(('encoded-with-the-given-encoding', BoolVal(e[1][-1] is enc and not e[2])))
                out.append(('checksum-of-the-encoded-bytes', BoolVal(len(c[1]) == 1 and c[1][0] is e[3] and not c[2])))
            return out
        return {'self': this, 'encoding': enc}, {'tools': tools}, check
    return setup


register(Unit('contexts.crc32', CX, 'FormattingMixin.crc32', _unit(_crc32('Context')), assumptions=['str.encode, tools.crc32_hex (zlib) are functions of their arguments'],
              linkage=[('type(ctx).crc32', None)]))
register(Unit('definitions.crc32', DF, 'FormattingMixin.crc32', _unit(_crc32('Definition')), assumptions=['str.encode, tools.crc32_hex (zlib) are functions of their arguments'],
              linkage=[('concepts.Definition.crc32', None)]))


# ---- fill_ratio (both)
ntrue = Int('number-of-true-cells')
I = IntSort()
popc = Function('popcount', I, I)


def _fill_ratio(cls):
    def setup(path, rec):
        size = _marker('self.shape.size')
        this = ObjV(cls, {'shape': ObjV('Shape', {'size': size}, name='self.shape')}, name='self')
        fractions = ObjV('module', {'Fraction': rec.func('Fraction')}, name='fractions')
        gx = {'fractions': fractions}
        n = Int('n_objects')
        row = Function('row', I, I)
        if cls == 'Context':
            this.fields['_intents'] = SeqV(lambda t: IntV(row(t), 'Properties'), n, '_intents')

            def sum_(p, a, k):
                (it,) = a
                t = p.fresh_int('t')
                ok = isinstance(it, (IterV, SeqV))
                # bitsets count() = number of members; the sum over the rows of the row sizes is the number of true cells
                # (Finset.card_sigma, lemmas/Upset.lean: card_true_cells)
                p.oblige('sum/over-the-rows-of-their-member-counts', 'pre@call',
                         And(it.length == n, it.at(t).t == popc(row(t))) if ok and isinstance(it.at(t), IntV) else BoolVal(False))
                return IntV(ntrue)
            gx['sum'] = FuncV('sum', sum_)
        else:
            pairs = _marker('self._pairs', __len__=FuncV('len', lambda p, a, k: IntV(ntrue)))     # len(set): its number of elements = true cells (WF)
            this.fields['_pairs'] = pairs

        def check(path, outcome, rec):
            ok = _returned(outcome, rec, 'Fraction') and len(rec.calls) == 1
            a = rec.calls[0][1] if ok else []
            okk = ok and len(a) == 2 and not rec.calls[0][2] and isinstance(a[0], IntV) and a[1] is size
            return [('Fraction(number of true cells, shape.size)', (a[0].t == ntrue) if okk else BoolVal(False))]
        meths = {('Properties', 'count'): FuncV('count', lambda p, a, k: IntV(popc(a[0].t)))}
        return {'self': this}, gx, check, meths
    return setup


def _unit_fr(cls):
    def make():
        def harness(path):
            rec = Rec()
            env, gx, check, meths = _fill_ratio(cls)(path, rec)
            g = dict(lib.builtins())
            g.update(gx)

            def finish(path, env_, outcome):
                for nm, f in check(path, outcome, rec):
                    path.oblige('post/' + nm, 'post', f)
            return env, {'globals': g, 'int_methods': meths}, finish
        return bits.axioms(), harness
    return make


register(Unit('contexts.fill_ratio', CX, 'Context.fill_ratio', _unit_fr('Context'),
              assumptions=['bitsets count() = number of members of the row; the row sizes add up to the number of true cells (Lean: card_true_cells)'],
              linkage=[('type(ctx).__dict__["fill_ratio"].fget', None)]))
register(Unit('definitions.fill_ratio', DF, 'Definition.fill_ratio', _unit_fr('Definition'),
              assumptions=['len(set) = its number of elements; with WF the pair set is the set of true cells'],
              linkage=[('concepts.Definition.fill_ratio.fget', None)]))


# ---- involution lemmas over the posts of definitions.transposed / definitions.inverted
def _lemma_involution():
    from contracts.definitions import PSet, Seq, a_, b_, axioms, inv_pairs, mem, nodup

    def prove(path):
        O, P = Const('O', Seq), Const('P', Seq)
        C, C1, C2, D1, D2 = (Const(n, PSet) for n in ('C', 'C1', 'C2', 'D1', 'D2'))
        path.assume(And(nodup(O), nodup(P), inv_pairs(O, P, C)))
        # transposed twice: posts of definitions.transposed applied to (O,P,C) and then to (P,O,C1)
        path.assume(ForAll([a_, b_], Select(C1, a_, b_) == Select(C, b_, a_), patterns=[Select(C1, a_, b_)]))
        path.assume(ForAll([a_, b_], Select(C2, a_, b_) == Select(C1, b_, a_), patterns=[Select(C2, a_, b_)]))
        path.oblige('transposed-transposed-has-the-cells-of-d', 'lemma', ForAll([a_, b_], Select(C2, a_, b_) == Select(C, a_, b_), patterns=[Select(C2, a_, b_)]))
        # inverted twice (names unchanged)
        path.assume(ForAll([a_, b_], Select(D1, a_, b_) == And(mem(O, a_), mem(P, b_), Not(Select(C, a_, b_))), patterns=[Select(D1, a_, b_)]))
        path.assume(ForAll([a_, b_], Select(D2, a_, b_) == And(mem(O, a_), mem(P, b_), Not(Select(D1, a_, b_))), patterns=[Select(D2, a_, b_)]))
        path.oblige('inverted-inverted-has-the-cells-of-d', 'lemma', ForAll([a_, b_], Select(D2, a_, b_) == Select(C, a_, b_), patterns=[Select(D2, a_, b_)]))
    return axioms(), prove


register(Unit('lemma.involution', None, None, _lemma_involution,
              assumptions=['posts of the units definitions.transposed (axes swapped, cells (a,b) <-> (b,a)) and definitions.inverted (names kept, cells complemented within the table)']))
