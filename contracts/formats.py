"""Contracts for the index-level and plumbing functions of the text formats (C12).  The text layer itself (str methods,
%-formatting, csv, codecs, newline translation) is out of reach of the deductive engine and stays bounded."""
from z3 import And, BoolVal, Function, Int, IntSort, Not, Or

from pyvc import bits
from pyvc.engine import (BoolV, DictV, FilterV, FuncV, IntV, IterV, ListV, LoopSpec, NONE, NoneV, ObjV, PyRaise, SeqV, StrV, TupleV,
                         Unsupported, truthy)
from contracts import lib
from contracts.persist import _simple, meth, prop
from contracts.registry import Unit, register

I = IntSort()
B = 'concepts/formats/base.py'


# ---- fimi.iter_fimi_rows: each row -> ascending indexes of its truthy cells

def _fimi_rows_unit():
    def make():
        cellv = Function('cell', I, I, I)
        nrows, ncols = Int('rows'), Function('cols', I, I)

        def harness(path):
            def row(r):
                v = SeqV(lambda c: IntV(cellv(r, c)), ncols(r), 'row[%s]' % r)
                v.row = r
                return v
            bools = IterV(row, nrows, 'bools')
            spec = LoopSpec(lambda e, k: [])

            def yields(e, k):
                # every row yields exactly one list: the filter of enumerate(row k) by truthiness, mapped to the cell index
                def value_ok(val):
                    ok = isinstance(val, FilterV) and getattr(val.base, 'row', None) is not None
                    if not ok:
                        return BoolVal(False)
                    c = path.fresh_int('c')
                    return And(val.base.row == k, val.cond(c) == (cellv(k, c) != 0), val.elt(c).t == c)
                return BoolVal(True), value_ok
            spec.yields = yields

            def enumerate_(p, args, kw):
                (it,) = args
                r = IterV(lambda t: TupleV([IntV(t), it.at(t)]), it.length, 'enumerate(%s)' % it.name)
                r.row = getattr(it, 'row', None)
                return r
            def finish(path, env_, outcome):
                if outcome[0] != 'return':
                    path.oblige('post/no-exception', 'post', BoolVal(False))
                path.oblige('post/only-loop-yields', 'post', BoolVal(len(path.out) == 0))
            loops = {'globals': dict(lib.builtins(), enumerate=FuncV('enumerate', enumerate_)), 0: spec}

            return {'bools': bools}, loops, finish
        return bits.axioms(), harness
    return make


register(Unit('formats.fimi.iter_fimi_rows', 'concepts/formats/fimi.py', 'iter_fimi_rows', _fimi_rows_unit(),
              assumptions=['list comprehension over enumerate(row) with a condition = filter in index order'],
              linkage=[('concepts.formats.fimi.iter_fimi_rows', None)]))


def _fimi_dump_setup(path):
    calls = []
    rows = ObjV('generator', {}, name='fimi-rows')
    bools, file = ObjV('Arg', {}, name='bools'), ObjV('Arg', {}, name='file')
    Dialect = ObjV('class', {}, name='FimiDialect')
    tools = ObjV('module', {'write_csv_file': FuncV('write_csv_file', lambda p, a, k: calls.append(('write', a, k)) or NONE)}, name='tools')
    g = {'iter_fimi_rows': FuncV('iter_fimi_rows', lambda p, a, k: calls.append(('rows', a, k)) or rows), 'tools': tools, 'FimiDialect': Dialect}

    def check(path, val):
        ok = [c[0] for c in calls] == ['rows', 'write'] and calls[0][1] == [bools] and calls[1][1] == [file, rows] \
            and set(calls[1][2]) == {'dialect'} and calls[1][2]['dialect'] is Dialect
        return [('writes-one-line-per-row-of-iter_fimi_rows', BoolVal(ok))]
    return ({'file': file, 'objects': ObjV('Arg', {}, name='objects'), 'properties': ObjV('Arg', {}, name='properties'), 'bools': bools},
            g, check)


register(Unit('formats.fimi.dump_file', 'concepts/formats/fimi.py', 'dump_file', _simple(_fimi_dump_setup),
              assumptions=['tools.write_csv_file with the space-delimited dialect writes one line per row (csv module, external)'],
              linkage=[('concepts.formats.fimi.dump_file', None)]))


# ---- FormatMeta.__getitem__ / infer_format: case-insensitive lookup

def _meta_getitem_setup(path):
    lowered = ObjV('str', {}, name='name.lower()')
    name = ObjV('str', {'lower': meth(lambda p, a, k: lowered)}, name='name')
    found = path.fresh_bool('known')
    res = ObjV('class', {}, name='format-class')

    def get(p, a, k):
        if a[-1] is not lowered:
            raise Unsupported('lookup with %r' % (a[-1],))
        if p.branch(found):
            return res
        raise PyRaise('KeyError')
    this = ObjV('FormatMeta-instance', {'_map': ObjV('dict', {'__getitem__': FuncV('dict.__getitem__', get)}, name='_map')}, name='self')
    return {'self': this, 'name': name}, None, None, found, res


def _meta_getitem_unit():
    def make():
        def harness(path):
            env, g, _, found, res = _meta_getitem_setup(path)

            def finish(path, env_, outcome):
                if outcome[0] == 'raise':
                    path.oblige('post/KeyError-iff-unknown', 'post', And(BoolVal(outcome[1] == 'KeyError'), Not(found)))
                else:
                    path.oblige('post/class-registered-under-the-lower-cased-name', 'post', And(found, BoolVal(outcome[1] is res)))
            return env, {'globals': lib.builtins()}, finish
        return bits.axioms(), harness
    return make


register(Unit('formats.FormatMeta.__getitem__', B, 'FormatMeta.__getitem__', _meta_getitem_unit(),
              assumptions=['str.lower()'], linkage=[('type(concepts.formats.Format).__getitem__', None)]))


def _infer_unit():
    def make():
        def harness(path):
            lowered = ObjV('str', {}, name='suffix.lower()')
            suffix = ObjV('str', {'lower': meth(lambda p, a, k: lowered)}, name='suffix')
            filename = ObjV('Arg', {}, name='filename')
            found = path.fresh_bool('known_suffix')
            res = ObjV('str', {}, name='format-name')

            def get(p, a, k):
                if a[-1] is not lowered:
                    raise Unsupported('lookup with %r' % (a[-1],))
                if p.branch(found):
                    return res
                raise PyRaise('KeyError')
            this = ObjV('FormatMeta-instance', {'by_suffix': ObjV('dict', {'__getitem__': FuncV('dict.__getitem__', get)}, name='by_suffix')}, name='self')
            os_ = ObjV('module', {'path': ObjV('module', {'splitext': FuncV('splitext', lambda p, a, k: TupleV([ObjV('str', {}, name='root'), suffix])
                                                                             if a == [filename] else NONE)}, name='os.path')}, name='os')

            def finish(path, env_, outcome):
                if outcome[0] == 'raise':
                    path.oblige('post/ValueError-iff-unknown-suffix', 'post', And(BoolVal(outcome[1] == 'ValueError'), Not(found)))
                else:
                    # the format is inferred from the file suffix case-insensitively
                    path.oblige('post/format-of-the-lower-cased-suffix', 'post', And(found, BoolVal(outcome[1] is res)))
            return {'self': this, 'filename': filename}, {'globals': dict(lib.builtins(), os=os_)}, finish
        return bits.axioms(), harness
    return make


register(Unit('formats.FormatMeta.infer_format', B, 'FormatMeta.infer_format', _infer_unit(),
              assumptions=['os.path.splitext, str.lower()'], linkage=[('type(concepts.formats.Format).infer_format', None)]))


# ---- Format.load / loads / dump / dumps: file handling with the format's encoding and newline

def _io_unit(which):
    def make():
        def harness(path):
            calls = []
            enc_given = path.fresh_bool('encoding_given')
            cls_enc, cls_nl = ObjV('str', {}, name='cls.encoding'), ObjV('str', {}, name='cls.newline')
            f = ObjV('file', {}, name='file')
            text = ObjV('str', {}, name='text')
            stripped = ObjV('str', {}, name='text.rstrip()')
            text.fields['rstrip'] = meth(lambda p2, a2, k2: stripped if len(a2) <= 1 and not k2 else NONE)
            f.fields['getvalue'] = meth(lambda p, a, k: text)
            result = ObjV('ContextArgs', {}, name='loadf-result')
            rstrip = path.fresh_bool('dumps_rstrip')
            cls = ObjV('class', {'encoding': cls_enc, 'newline': cls_nl, 'dumps_rstrip': BoolV(rstrip),
                                 'loadf': FuncV('loadf', lambda p, a, k: calls.append(('loadf', a, k)) or result),
                                 'dumpf': FuncV('dumpf', lambda p, a, k: calls.append(('dumpf', a, k)) or NONE)}, name='cls')
            enc_arg = ObjV('str', {}, name='encoding-arg') if path.branch(enc_given) else NONE
            names = {n: ObjV('Arg', {}, name=n) for n in ('filename', 'source', 'objects', 'properties', 'bools', '_serialized')}
            kwargs = DictV({'extra': ObjV('Arg', {}, name='extra')})

            def open_(p, a, k):
                calls.append(('open', a, k))
                return f
            io = ObjV('module', {'StringIO': FuncV('io.StringIO', lambda p, a, k: calls.append(('StringIO', a, k)) or f)}, name='io')
            g = dict(lib.builtins(), open=FuncV('open', open_), io=io)
            env = {'cls': cls, 'kwargs': kwargs}
            if which in ('load', 'dump'):
                env['filename'], env['encoding'] = names['filename'], enc_arg
            if which == 'loads':
                env['source'] = names['source']
            if which in ('dump', 'dumps'):
                env.update({n: names[n] for n in ('objects', 'properties', 'bools', '_serialized')})

            def finish(path, env_, outcome):
                if outcome[0] != 'return':
                    path.oblige('post/no-exception', 'post', BoolVal(False))
                    return
                enc = enc_arg if not isinstance(enc_arg, NoneV) else cls_enc
                if which == 'load':
                    ok = [c[0] for c in calls] == ['open', 'loadf'] and calls[0][1] == [names['filename']] \
                        and set(calls[0][2]) == {'encoding', 'newline'} and calls[0][2]['encoding'] is enc and calls[0][2]['newline'] is cls_nl \
                        and calls[1][1][-1:] == [f] and calls[1][2] == kwargs.items and outcome[1] is result
                    path.oblige('post/opened-with-the-format-encoding-and-newline-then-parsed', 'post', BoolVal(ok))
                elif which == 'loads':
                    ok = [c[0] for c in calls] == ['StringIO', 'loadf'] and calls[0][1] == [names['source']] and calls[1][1][-1:] == [f] \
                        and calls[1][2] == kwargs.items and outcome[1] is result
                    path.oblige('post/parsed-from-a-string-buffer', 'post', BoolVal(ok))
                elif which == 'dump':
                    ok = [c[0] for c in calls] == ['open', 'dumpf'] and len(calls[0][1]) == 2 and calls[0][1][0] is names['filename'] \
                        and getattr(calls[0][1][1], 'value', None) == 'w' and set(calls[0][2]) == {'encoding', 'newline'} \
                        and calls[0][2]['encoding'] is enc and calls[0][2]['newline'] is cls_nl \
                        and calls[1][1][-4:] == [f, names['objects'], names['properties'], names['bools']] \
                        and calls[1][2].get('_serialized') is names['_serialized'] and calls[1][2].get('extra') is kwargs.items['extra']
                    path.oblige('post/written-with-the-format-encoding-and-newline', 'post', BoolVal(ok))
                else:
                    ok = [c[0] for c in calls] == ['StringIO', 'dumpf'] and set(calls[0][2]) == {'newline'} and calls[0][2]['newline'] is cls_nl \
                        and calls[1][1][-4:] == [f, names['objects'], names['properties'], names['bools']] \
                        and calls[1][2].get('_serialized') is names['_serialized']
                    path.oblige('post/dumped-into-a-string-buffer-with-the-format-newline', 'post', BoolVal(ok))
                    # the buffer's text, right-stripped exactly when the format says so (dumps_rstrip)
                    from z3 import If as _If
                    path.oblige('post/returns-the-text-rstripped-iff-dumps_rstrip', 'post',
                                _If(rstrip, BoolVal(outcome[1] is stripped), BoolVal(outcome[1] is text)))
            return env, {'globals': g}, finish
        return bits.axioms(), harness
    return make


for _w in ('load', 'loads', 'dump', 'dumps'):
    register(Unit('formats.Format.' + _w, B, 'Format.' + _w, _io_unit(_w),
                  assumptions=['open / io.StringIO / codecs / newline translation are external (bounded side: encodings utf-8, utf-16, latin-1)'],
                  linkage=[('concepts.formats.Format.%s' % _w, None)]))


# ---- Context.fromstring / fromfile / tostring / tofile and the module-level loaders: plumbing

def _ctx_io_unit(which):
    def make():
        def harness(path):
            calls = []
            serialized_present = path.fresh_bool('args.serialized_present')
            frmat_none = path.fresh_bool('frmat_is_None') if which == 'fromfile' else None
            is_literal = path.fresh_bool('format_is_python_literal')
            fmt = ObjV('class', {}, name='format-class')
            PythonLiteral = fmt if False else ObjV('class', {}, name='PythonLiteral')
            ser = ObjV('dict', {}, name='serialized')
            args_obj = ObjV('ContextArgs', {'objects': ObjV('list', {}, name='args.objects'), 'properties': ObjV('list', {}, name='args.properties'),
                                            'bools': ObjV('list', {}, name='args.bools')}, name='args')
            inferred = ObjV('str', {}, name='inferred-format-name')

            def getitem(p, a, k):
                calls.append(('Format[]', a[-1]))
                return chosen[0]
            chosen = [fmt]
            Format = ObjV('class', {'__getitem__': FuncV('Format.__getitem__', getitem),
                                    'infer_format': FuncV('infer_format', lambda p, a, k: calls.append(('infer', a, k)) or inferred)}, name='Format')
            for nm in ('loads', 'load', 'dumps', 'dump'):
                fmt.fields[nm] = FuncV('fmt.' + nm, lambda p, a, k, _n=nm: calls.append((_n, a, k)) or (args_obj if _n.startswith('load') else ObjV('str', {}, name='text')))
                PythonLiteral.fields[nm] = fmt.fields[nm]
            formats = ObjV('module', {'Format': Format, 'PythonLiteral': PythonLiteral}, name='formats')
            res_dict, res_ctor = ObjV('Context', {}, name='from-dict'), ObjV('Context', {}, name='from-triple')
            cls = ObjV('class', {'fromdict': FuncV('fromdict', lambda p, a, k: calls.append(('fromdict', a, k)) or res_dict),
                                 '__call__': FuncV('cls', lambda p, a, k: calls.append(('cls', a[1:], k)) or res_ctor)}, name='cls')
            names = {n: ObjV('Arg', {}, name=n) for n in ('source', 'frmat', 'filename', 'encoding')}
            kwargs = DictV({'extra': ObjV('Arg', {}, name='extra')})
            env = {'kwargs': kwargs}
            if which in ('fromstring', 'fromfile'):
                env['cls'] = cls
                if path.branch(serialized_present):
                    args_obj.fields['serialized'] = ser
                else:
                    args_obj.fields['serialized'] = NONE
                if which == 'fromstring':
                    env.update(source=names['source'], frmat=names['frmat'])
                else:
                    env.update(filename=names['filename'], encoding=names['encoding'])
                    env['frmat'] = NONE if path.branch(frmat_none) else names['frmat']
            else:
                tod = ObjV('dict', {}, name='todict-result')
                this = ObjV('Context', {'objects': prop(lambda p, a, k: args_obj.fields['objects']),
                                        'properties': prop(lambda p, a, k: args_obj.fields['properties']),
                                        'bools': prop(lambda p, a, k: args_obj.fields['bools']),
                                        'todict': meth(lambda p, a, k: calls.append(('todict', a[1:], k)) or tod)}, name='self')
                env.update(self=this, frmat=names['frmat'])
                if path.branch(is_literal):
                    chosen[0] = PythonLiteral
                if which == 'tofile':
                    env.update(filename=names['filename'], encoding=names['encoding'])

            def finish(path, env_, outcome):
                if outcome[0] != 'return':
                    path.oblige('post/no-exception', 'post', BoolVal(False))
                    return
                seq = [c[0] for c in calls]
                if which in ('fromstring', 'fromfile'):
                    exp_name = names['frmat']
                    pre = []
                    if which == 'fromfile' and isinstance(env['frmat'], NoneV) if False else False:
                        pass
                    if which == 'fromfile' and frmat_none is not None and any(c[0] == 'infer' for c in calls):
                        pre = ['infer']
                        exp_name = inferred
                    loader = 'loads' if which == 'fromstring' else 'load'
                    ser_on = not isinstance(args_obj.fields['serialized'], NoneV)
                    exp = pre + ['Format[]', loader, 'fromdict' if ser_on else 'cls']
                    ok = seq == exp
                    path.oblige('post/call-sequence', 'post', BoolVal(ok))
                    if not ok:
                        return
                    i0 = len(pre)
                    path.oblige('post/format-by-name', 'post', BoolVal(calls[i0][1] is exp_name))
                    if pre:
                        path.oblige('post/format-inferred-from-the-filename', 'post', BoolVal(calls[0][1][-1:] == [names['filename']]))
                    la, lk = calls[i0 + 1][1], calls[i0 + 1][2]
                    if which == 'fromstring':
                        path.oblige('post/loader-arguments', 'post', BoolVal(la == [names['source']] and lk == kwargs.items))
                    else:
                        path.oblige('post/loader-arguments', 'post', BoolVal(la == [names['filename']] and lk.get('encoding') is names['encoding']
                                                                             and lk.get('extra') is kwargs.items['extra'] and set(lk) == {'encoding', 'extra'}))
                    fa = calls[i0 + 2][1]
                    if ser_on:
                        path.oblige('post/serialized-form-goes-through-fromdict', 'post', BoolVal(fa[-1:] == [ser] and outcome[1] is res_dict))
                    else:
                        path.oblige('post/context-from-the-parsed-triple', 'post', BoolVal(
                            fa == [args_obj.fields['objects'], args_obj.fields['properties'], args_obj.fields['bools']] and outcome[1] is res_ctor))
                else:
                    lit = chosen[0] is PythonLiteral
                    dumper = 'dumps' if which == 'tostring' else 'dump'
                    exp = ['Format[]'] + (['todict'] if lit else []) + [dumper]
                    ok = seq == exp
                    path.oblige('post/call-sequence', 'post', BoolVal(ok))
                    if not ok:
                        return
                    da, dk = calls[-1][1], calls[-1][2]
                    triple = [args_obj.fields['objects'], args_obj.fields['properties'], args_obj.fields['bools']]
                    pos = da[-3:] if which == 'tostring' else da[-3:]
                    path.oblige('post/dumps-the-own-triple', 'post', BoolVal(pos == triple))
                    if which == 'tofile':
                        path.oblige('post/filename-and-encoding', 'post', BoolVal(da[0] is names['filename'] and dk.get('encoding') is names['encoding']))
                    if lit:
                        tk = calls[1][2]
                        path.oblige('post/python-literal-carries-the-dict-form-with-a-lazily-present-lattice', 'post',
                                    BoolVal(set(tk) == {'ignore_lattice'} and isinstance(tk['ignore_lattice'], NoneV) and '_serialized' in dk))
                    else:
                        path.oblige('post/no-serialized-form-for-text-formats', 'post', BoolVal('_serialized' not in dk))
            return env, {'globals': dict(lib.builtins(), formats=formats)}, finish
        return bits.axioms(), harness
    return make


for _w, _q in (('fromstring', 'Data.fromstring'), ('fromfile', 'Data.fromfile'), ('tostring', 'FormattingMixin.tostring'), ('tofile', 'ExportableMixin.tofile')):
    register(Unit('contexts.' + _w, 'concepts/contexts.py', _q, _ctx_io_unit(_w),
                  assumptions=['contracts of Format[...] / infer_format / load(s) / dump(s) (units formats.*), Context.fromdict, Context.__init__'],
                  linkage=[('concepts.Context.' + _w, None)]))
