"""Context-level theory: a symbolic formal context with CtxInv, the spec functions Up, Dn, Cl, Cl' and the
set predicates used in postconditions (all definitional, skolemised; DESIGN 3.2, 5.2, 5.3).

  n objects, m properties;  rows = ctx._intents (n bitsets < 2^m), cols = ctx._extents (m bitsets < 2^n)
  O = PairEnv of the closures of ctx._extents  (ctx._Objects.prime/double/doubleprime):  prime = Up, double = Cl
  P = PairEnv of the closures of ctx._intents  (ctx._Properties.prime/...):               prime = Dn, double = Cl'
"""
from z3 import (And, BoolSort, ForAll, Function, Implies, Int, IntSort, Ints, MultiPattern, Not, Or)

from pyvc import bits
from pyvc.bits import bit
from pyvc.engine import FuncV, IntV, ObjV, SeqV, TupleV, NONE, BoolV, PyRaise
from contracts.matrices import PairEnv

I = IntSort()
B = BoolSort()


class SetPreds:
    """subset / disjoint / covers over naturals as bit sets (definitional axioms with skolem witnesses)."""

    def __init__(self):
        self.subset = Function('subset', I, I, B)
        self.w_subset = Function('w.subset', I, I, I)
        self.disjoint = Function('disjoint', I, I, B)
        self.w_disjoint = Function('w.disjoint', I, I, I)
        self.covers = Function('covers', I, I, I, B)          # covers(a,b,n): every k<n is in a or b
        self.w_covers = Function('w.covers', I, I, I, I)

    def axioms(self):
        a, b, k, n = Ints('a b k n')
        S = self
        return [
            ('subset.elim', ForAll([a, b, k], Implies(And(S.subset(a, b), bit(a, k)), bit(b, k)),
                                   patterns=[MultiPattern(S.subset(a, b), bit(a, k))])),
            ('subset.intro', ForAll([a, b], Implies(Not(S.subset(a, b)),
                                                    And(bit(a, S.w_subset(a, b)), Not(bit(b, S.w_subset(a, b))))),
                                    patterns=[S.subset(a, b)])),
            ('disjoint.elim', ForAll([a, b, k], Implies(S.disjoint(a, b), Not(And(bit(a, k), bit(b, k)))),
                                     patterns=[MultiPattern(S.disjoint(a, b), bit(a, k)),
                                               MultiPattern(S.disjoint(a, b), bit(b, k))])),
            ('disjoint.intro', ForAll([a, b], Implies(Not(S.disjoint(a, b)),
                                                      And(bit(a, S.w_disjoint(a, b)), bit(b, S.w_disjoint(a, b)))),
                                      patterns=[S.disjoint(a, b)])),
            ('covers.elim', ForAll([a, b, n, k], Implies(And(S.covers(a, b, n), 0 <= k, k < n), Or(bit(a, k), bit(b, k))),
                                   patterns=[MultiPattern(S.covers(a, b, n), bit(a, k)),
                                             MultiPattern(S.covers(a, b, n), bit(b, k))])),
            ('covers.intro', ForAll([a, b, n], Implies(Not(S.covers(a, b, n)),
                                                       And(0 <= S.w_covers(a, b, n), S.w_covers(a, b, n) < n,
                                                           Not(bit(a, S.w_covers(a, b, n))), Not(bit(b, S.w_covers(a, b, n))))),
                                    patterns=[S.covers(a, b, n)])),
        ]


class Ctx:
    def __init__(self, prefix=''):
        self.O = PairEnv(prefix + 'O')
        self.P = self.O.dual(prefix + 'P')
        self.n = self.O.len_other      # number of objects
        self.m = self.O.len_self       # number of properties
        self.Up, self.Cl = self.O.primeF, self.O.doubleF
        self.Dn, self.Cl2 = self.P.primeF, self.P.doubleF
        self.sets = SetPreds()
        self.ObjSup = self.P.Prime     # Objects.supremum  = 2^n - 1
        self.PropSup = self.O.Prime    # Properties.supremum = 2^m - 1

    def axioms(self):
        ax = bits.axioms() + self.O.facts() + self.O.defs()
        # P shares sequences and acc functions with O; only primeF/doubleF of P need their definitions
        ax += [(n + '@P', f) for n, f in self.P.defs() if n.startswith(('primeF', 'doubleF'))]
        ax += [('ctx.nonempty', And(self.n >= 1, self.m >= 1))]
        ax += self.sets.axioms()
        return ax

    def is_objset(self, b):
        return self.O.in_domain(b)

    def is_propset(self, b):
        return self.P.in_domain(b)

    def is_extent(self, e):
        return And(self.is_objset(e), self.Cl(e) == e)

    # ---- contracts of the closures as callees (the postconditions proved in contracts/matrices.py)
    def closure_funcs(self):
        """int_methods table: (tag, attr) -> FuncV taking the bitset as first argument."""
        C = self

        from contracts.lemmas_z3 import Side, use_galois

        def mk(env, which, tag_in, tag_out, dom):
            # callee contract = the postcondition proved in units matrices.prime/double/doubleprime (value form),
            # plus instances of the z3-proved lemmas lemma.galois/galois2 for the argument (`use lemma`)
            S = Side(C, which)

            def prime(p, args, kw):
                b = args[0]
                p.oblige('pre@%s.prime' % tag_in, 'pre@call', dom(b.t))
                use_galois(p, S, b.t)
                return IntV(env.primeF(b.t), tag_out)

            def double(p, args, kw):
                b = args[0]
                p.oblige('pre@%s.double' % tag_in, 'pre@call', dom(b.t))
                use_galois(p, S, b.t)
                return IntV(env.doubleF(b.t), tag_in)

            def doubleprime(p, args, kw):
                b = args[0]
                p.oblige('pre@%s.doubleprime' % tag_in, 'pre@call', dom(b.t))
                use_galois(p, S, b.t)
                return TupleV([IntV(env.doubleF(b.t), tag_in), IntV(env.primeF(b.t), tag_out)])
            return {(tag_in, 'prime'): FuncV(tag_in + '.prime', prime),
                    (tag_in, 'double'): FuncV(tag_in + '.double', double),
                    (tag_in, 'doubleprime'): FuncV(tag_in + '.doubleprime', doubleprime)}
        t = {}
        t.update(mk(self.O, 'O', 'Objects', 'Properties', self.is_objset))
        t.update(mk(self.P, 'P', 'Properties', 'Objects', self.is_propset))
        return t

    def fresh_objset(self, path, name):
        b = Int(name)
        path.assume(self.is_objset(b))
        return IntV(b, 'Objects')

    def fresh_propset(self, path, name):
        b = Int(name)
        path.assume(self.is_propset(b))
        return IntV(b, 'Properties')
