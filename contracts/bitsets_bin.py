"""The functions of `bitsets` that go through the TEXT `bin(n)` / `format(n, '0wb')` (DESIGN 11.22): no longer assumed.

  MemberBits.count                 bin(self)[2:].count('01'[value]): the number of members `card(self)` (value True, the default; /repo only calls
                                   count()); for value False the number of '0' digits of bin(self): digits - card(self)
  integers.indexes_optimized       (= MemberBits._indexes, behind members()): yields exactly the positions of the set bits, ascending -- the contract
                                   proved for integers.indexes, so the two agree
  MemberBits.bits                  '{0:0{1}b}'.format(self, self._len)[::-1]: exactly `_len` characters, the t-th is '1' iff t is a member, else '0'
  MemberBits.shortlex / longlex    (contracts/bitsets_lib.py) now run on the same text model: the first key component is +-card(self)
  lemma.bitsets.shortlex_key       the key (card, reinverted) compares like the documented order `less` of combos.shortlex (lemma.powerset.order), and
                                   a proper subset comes first (L-SLEX): corollary of lemma.bitsets.key_order and BitsBin.card_lt_of_ssubset

How the text level is split (as DESIGN 11.13 for the cxt format):
  proved in Lean (lemmas/BitsBin.lean)    bin / digits / fmtB over List Char and their relation to Nat.testBit; card and its laws; the list facts behind
                                          slicing and counting.  Used here as lemma instances: premises obliged, conclusion assumed (pyvc/bintext.py L_*, A_*)
  proved by z3 here                       everything between the lemma and the function: which slice, which character, the prefix '0b' (two characters,
                                          neither a '1'), the index arithmetic of the reversed digits, the loop invariant, the default value of `value`
  ASSUMED, validated by self-tests        "CPython's bin / format / slicing / str.count / enumerate compute the Lean definitions" (pyvc/bintext.py:
                                          selftest(), selftest_lean(); thorough tier)
"""
import z3
from z3 import And, BoolSort, BoolVal, ForAll, Function, If, Implies, Int, IntSort, IntVal, Ints, Not, Or

from pyvc import bintext, bits
from pyvc.bintext import ONE, ZERO
from pyvc.bits import bit
from pyvc.engine import BoolV, FuncV, IntV, IterV, LoopSpec, ObjV, SeqV, StrV, TupleV, Unsupported
from contracts import lib
from contracts.bitsets_lib import BASES, INTEGERS, LINK, _class_env, _prop
from contracts.registry import Unit, register

I = IntSort()
B = BoolSort()


# ---------------------------------------------------------------------------------------------------------------------
# applying a schema of pyvc/bintext.py: premises are obligations, then (and only then) the conclusion is assumed

def _q(lo, hi, body, pat):
    q = Int('q')
    guard = (lo <= q) if hi is None else And(lo <= q, q < hi)
    return ForAll([q], Implies(guard, body(q)), patterns=[pat(q)])


def prove_items(path, tag, items):
    for it in items:
        if it[0] == 'fact':
            path.oblige('%s/%s' % (tag, it[1]), 'lemma', it[2])
        else:
            _, name, lo, hi, body, pat = it
            t = path.fresh_int('t')
            guard = (lo <= t) if hi is None else And(lo <= t, t < hi)
            path.oblige('%s/%s' % (tag, name), 'lemma', Implies(guard, body(t)))
            path.assume(_q(lo, hi, body, pat))          # proved for an arbitrary t: holds for all


def assume_items(path, items):
    for it in items:
        path.assume(it[2] if it[0] == 'fact' else _q(*it[2:]))


def use(path, tag, schema):
    prem, concl = schema
    prove_items(path, tag + '/premise', prem)
    assume_items(path, concl)


# ---------------------------------------------------------------------------------------------------------------------
# engine values of the text vocabulary

class Texts:
    """python `str` values whose content is a term of sort BTxt: bin(n), '{0:0{1}b}'.format(n, w) and their slices x[k:], x[:k:-1], x[::-1]
    (literal bounds only), with len / indexing / iteration / enumerate / count of one character / comparison of a character with a literal"""

    def __init__(self, path, T):
        self.path, self.T = path, T

    # ---- values
    def text(self, term, origin, name):
        o = ObjV('str', {}, name=name)
        o.btxt, o.origin = term, origin
        o.fields['__getslice__'] = self._slice
        cnt = FuncV('str.count', lambda p, a, kw: self._count(p, a[0], a[1:], kw))
        cnt.is_method = True
        o.fields['count'] = cnt
        o.fields['__len__'] = FuncV('len', lambda p, a, kw: IntV(self.T.tlen(term)))
        o.fields['__getitem__'] = FuncV('str.__getitem__', lambda p, a, kw: self._index(p, a[0], a[1]))
        o.fields['__iter__'] = FuncV('iter', lambda p, a, kw: self.chars(a[0]))
        o.isinstance_fn = lambda names: 'str' in names
        return o

    def char(self, code):
        c = ObjV('str', {}, name='character')
        c.code = code

        def eq(p, a, kw):
            other = a[1]
            if isinstance(other, StrV) and other.value is not None:
                return BoolV(code == ord(other.value)) if len(other.value) == 1 else BoolV(False)
            if isinstance(other, ObjV) and getattr(other, 'code', None) is not None:
                return BoolV(code == other.code)
            raise Unsupported('comparison of a character with %r' % (other,))
        c.fields['__eq__'] = FuncV('str.__eq__', eq)
        return c

    def chars(self, o):
        return IterV(lambda t: self.char(self.T.chr(o.btxt, t)), self.T.tlen(o.btxt), 'characters of ' + o.name)

    # ---- operations
    def _index(self, p, o, i):
        if not isinstance(i, IntV):
            raise Unsupported('index of a text of kind %s' % type(i).__name__)
        p.oblige('index@' + o.name, 'index', And(i.t >= 0, i.t < self.T.tlen(o.btxt)))      # (python also accepts negative indexes)
        return self.char(self.T.chr(o.btxt, i.t))

    def _slice(self, interp, env, o, sl):
        def lit(node):
            if node is None:
                return None
            v = interp.eval(node, env)
            if isinstance(v, IntV) and z3.is_int_value(z3.simplify(v.t)):
                return z3.simplify(v.t).as_long()
            raise Unsupported('slice bound of a text that is not an integer literal')
        lo, hi, step = lit(sl.lower), lit(sl.upper), lit(sl.step)
        T = self.T
        if step in (None, 1) and hi is None and (lo is None or lo >= 0):
            k = lo or 0
            return self.text(T.drop(o.btxt, IntVal(k)), ('drop', o, k), '%s[%d:]' % (o.name, k))
        if step == -1 and lo is None and hi is None:
            return self.text(T.rev(o.btxt), ('rev', o, 0), '%s[::-1]' % o.name)
        if step == -1 and lo is None and hi is not None and hi >= 0:
            return self.text(T.revdown(o.btxt, IntVal(hi)), ('revdown', o, hi), '%s[:%d:-1]' % (o.name, hi))
        raise Unsupported('slice [%s:%s:%s] of a text' % (lo, hi, step))

    def _count(self, p, o, args, kw):
        if len(args) != 1 or kw or not (isinstance(args[0], StrV) and args[0].value is not None and len(args[0].value) == 1):
            raise Unsupported('str.count of other than one literal character')
        c = ord(args[0].value)
        self._count_instances(p, o, c)
        return IntV(self.T.count(o.btxt, c))

    def _count_instances(self, p, o, c):
        """ground instances of the counting facts (A_cnt_*: valid for every text, so adding them is sound) along the chain of slices
        down to the text that was sliced"""
        T = self.T
        kind, parent, k = o.origin
        if kind not in ('drop', 'revdown', 'rev'):
            return
        x = parent.btxt
        if k > 64:
            raise Unsupported('slice bound %d: too many counting instances' % k)
        if kind == 'drop':
            facts, upto = bintext.A_cnt_drop(T, x, c, IntVal(k)), k
        elif kind == 'revdown':
            facts, upto = bintext.A_cnt_revdown(T, x, c, IntVal(k)), k + 1
        else:
            facts, upto = bintext.A_cnt_rev(T, x, c), 0
        facts = facts + bintext.A_cnt_zero(T, x, c)
        for j in range(upto):
            facts = facts + bintext.A_cnt_step(T, x, c, IntVal(j))
        for _, f in facts:
            p.assume(f)
        self._count_instances(p, parent, c)

    # ---- the builtins that make texts
    def bin_fn(self):
        def bin_(p, a, kw):
            if len(a) != 1 or kw or not isinstance(a[0], IntV):
                raise Unsupported('bin of %r' % (a,))
            n = a[0].t
            # bin of a NATURAL number (a negative one has a sign in front): the premise of both lemmas
            use(p, 'bin', bintext.L_bin_shape(self.T, n))
            use(p, 'bin.count', bintext.L_bin_count(self.T, n))
            return self.text(self.T.bin(n), ('bin', None, 0), 'bin(%s)' % n)
        return FuncV('bin', bin_)

    def format_fn(self):
        """'{0:0{1}b}'.format(n, w): only this template"""
        def fmt(p, a, kw):
            tmpl = a[0]
            if kw or len(a) != 3 or tmpl.value != '{0:0{1}b}' or not all(isinstance(v, IntV) for v in a[1:]):
                raise Unsupported('str.format of %r' % (tmpl,))
            n, w = a[1].t, a[2].t
            use(p, 'format', bintext.L_fmtb_shape(self.T, n, w))
            return self.text(self.T.fmtb(n, w), ('fmtb', None, 0), 'format(%s, 0%sb)' % (n, w))
        return FuncV('str.format', fmt)

    def enumerate_fn(self):
        def enumerate_(p, a, kw):
            it = a[0]
            start = a[1] if len(a) > 1 else kw.get('start', IntV(0))
            if not isinstance(start, IntV) or len(a) > 2 or set(kw) - {'start'}:
                raise Unsupported('enumerate arguments')
            seq = self.chars(it) if isinstance(it, ObjV) and getattr(it, 'btxt', None) is not None else it
            if not isinstance(seq, (IterV, SeqV)):
                raise Unsupported('enumerate of %r' % (it,))
            return IterV(lambda t: TupleV([IntV(t + start.t), seq.at(t)]), seq.length, 'enumerate(%s)' % seq.name)
        return FuncV('enumerate', enumerate_)

    def reversed_fn(self, fallback):
        """reversed(text): the characters of text[::-1]"""
        def reversed_(p, a, kw):
            if len(a) == 1 and not kw and isinstance(a[0], ObjV) and getattr(a[0], 'btxt', None) is not None:
                o = a[0]
                return self.chars(self.text(self.T.rev(o.btxt), ('rev', o, 0), 'reversed(%s)' % o.name))
            return fallback.fn(p, a, kw)
        return FuncV('reversed', reversed_)


def _globals(K):
    base = lib.builtins()
    return dict(base, bin=K.bin_fn(), enumerate=K.enumerate_fn(), reversed=K.reversed_fn(base['reversed']))


def _unit(body):
    def make():
        def harness(path):
            return body(path)
        return bits.axioms() + bintext.Z3B().axioms(), harness
    return make


# ---------------------------------------------------------------------------------------------------------------------
# MemberBits.count(value=True)

def _count(path):
    W, x, atoms, meths = _class_env(path)
    T = bintext.Z3B()
    K = Texts(path, T)
    meths[('Bits', '_len')] = _prop(lambda p, a, kw: IntV(W))
    env = {'self': IntV(x, 'Bits')}
    val = None
    if path.branch(path.fresh_bool('value given')):       # else: the default of the real signature is read (callers rely on count())
        val = path.fresh_bool('value')                    # requires a bool (the ValueError of the guard is for other values)
        env['value'] = BoolV(val)
    g = _globals(K)

    def finish(path, env_, outcome):
        if outcome[0] != 'return':
            path.oblige('post/no-exception', 'post', BoolVal(False))
            return
        r = outcome[1]
        ok = isinstance(r, IntV)
        digits = T.tlen(T.bin(x)) - 2
        want = T.card(x) if val is None else If(val, T.card(x), digits - T.card(x))
        # value True (the default): the number of members.  value False: the number of '0' DIGITS of bin(self) -- the positions below the highest
        # member that are not members (one for the empty set), not the number of non-members of the domain
        path.oblige('post/number-of-members (value False: of zero digits)', 'post', (r.t == want) if ok else BoolVal(False))
        # a set within the `digits` positions of bin(self) has at most that many members (BitsBin.card_le_of_lt_two_pow)
        use(path, 'card.digits', bintext.L_card_width(T, x, digits))
        path.oblige('post/at-most-the-domain-size', 'post', And(r.t >= 0, Implies(BoolVal(True) if val is None else val, r.t <= W)) if ok else BoolVal(False))
    # the size of a set within W positions (BitsBin.card_le_of_lt_two_pow); its premises are obligations (class invariant)
    use(path, 'card.width', bintext.L_card_width(T, x, W))
    use(path, 'card.basic', bintext.L_card_basic(T, x))
    return env, {'int_methods': meths, 'globals': g}, finish


# ---------------------------------------------------------------------------------------------------------------------
# integers.indexes_optimized(n)

def _indexes_optimized(path):
    n0 = Int('n0')
    path.assume(n0 >= 0)          # requires a natural (as integers.indexes)
    T = bintext.Z3B()
    K = Texts(path, T)
    k = Int('k')
    cnt = path.eng.counter
    st = {'Y': Function('Y!%d' % next(cnt), I, B)}
    path.assume(ForAll([k], Not(st['Y'](k)), patterns=[st['Y'](k)]))

    def inv(e, done):
        Y = st['Y']
        return [('yielded-so-far', ForAll([k], Y(k) == And(0 <= k, k < done, bit(n0, k)), patterns=[Y(k)]))]
    spec = LoopSpec(inv, ghost_havoc=lambda p, env: st.update(Y=Function('Y!%d' % next(cnt), I, B)))
    # iteration t (character t of the reversed digits) yields exactly once, the value t, iff bit t of n is set -- and never otherwise
    spec.yields = lambda e, t: (bit(n0, t), IntV(t))

    def on_yield(p, env, val):
        Y = st['Y']
        ok = isinstance(val, IntV)
        p.oblige('yield/position-of-a-set-bit', 'yield', And(val.t >= 0, bit(n0, val.t)) if ok else BoolVal(False))
        p.oblige('yield/ascending', 'yield', ForAll([k], Implies(Y(k), k < val.t), patterns=[Y(k)]) if ok else BoolVal(False))
        Y2 = Function('Y!%d' % next(cnt), I, B)
        p.assume(ForAll([k], Y2(k) == Or(k == val.t, Y(k)), patterns=[Y2(k), Y(k)]))
        st['Y'] = Y2

    def finish(path, env, outcome):
        if outcome[0] != 'return':
            path.oblige('post/no-exception', 'post', BoolVal(False))
            return
        Y = st['Y']
        # the postcondition of unit bitsets.integers.indexes, word for word
        path.oblige('post/yields-exactly-the-set-bits', 'post', ForAll([k], Y(k) == bit(n0, k), patterns=[Y(k), bit(n0, k)]))
    g = _globals(K)
    return {'n': IntV(n0)}, {0: spec, 'on_yield': on_yield, 'globals': g}, finish


# ---------------------------------------------------------------------------------------------------------------------
# MemberBits.bits()

def _bits(path):
    W, x, atoms, meths = _class_env(path)
    path.assume(W >= 1)           # requires a class with at least one member: '{0:00b}'.format(0, 0) is '0', ONE character for no position
    T = bintext.Z3B()
    K = Texts(path, T)
    meths[('Bits', '_len')] = _prop(lambda p, a, kw: IntV(W))
    g = _globals(K)

    def finish(path, env, outcome):
        if outcome[0] != 'return':
            path.oblige('post/no-exception', 'post', BoolVal(False))
            return
        r = outcome[1]
        ok = isinstance(r, ObjV) and getattr(r, 'btxt', None) is not None
        path.oblige('post/one-character-per-domain-position', 'post', (T.tlen(r.btxt) == W) if ok else BoolVal(False))
        if ok:
            t = path.fresh_int('t')
            path.oblige('post/character-t-is-1-iff-t-is-a-member-else-0', 'post',
                        Implies(And(0 <= t, t < W), T.chr(r.btxt, t) == If(bit(x, t), IntVal(ONE), IntVal(ZERO))))
    return {'self': IntV(x, 'Bits')}, {'int_methods': meths, 'globals': g, 'value_methods': {('StrV', 'format'): K.format_fn()}}, finish


if INTEGERS:
    register(Unit('bitsets.integers.indexes_optimized', INTEGERS, 'indexes_optimized', _unit(_indexes_optimized),
                  assumptions=['requires n >= 0',
                               'lemma instances (Lean, lemmas/BitsBin.lean): L_bin_shape = bin_getElem\', testBit_of_length_digits_le, ...; slices: A_revDownTo_*',
                               'LIBRARY (validated by pyvc/bintext.py selftest / selftest_lean, never proved): CPython\'s bin / slicing / enumerate / == on '
                               'characters compute the List Char definitions of lemmas/BitsBin.lean'],
                  linkage=[(LINK + 'integers.indexes_optimized', None), (LINK + 'bases.MemberBits._indexes', None), ('ctx._Objects._indexes', None),
                           ('ctx._Properties._indexes', None)]))

if BASES:
    register(Unit('bitsets.MemberBits.count', BASES, 'MemberBits.count', _unit(_count),
                  assumptions=['class invariant of a bitset class (unit bitsets.Meta.__init__); requires value to be a bool',
                               'lemma instances (Lean, lemmas/BitsBin.lean): L_bin_shape, L_bin_count = count_one_bin / count_zero_bin, '
                               'L_card_width = card_le_of_lt_two_pow; counting in a slice: A_count_drop, A_count_take_succ',
                               'LIBRARY (validated, never proved): CPython\'s bin / slicing / str.count compute the definitions of lemmas/BitsBin.lean'],
                  linkage=[(LINK + 'bases.MemberBits.count', None), ('ctx._Objects.count', None), ('ctx._Properties.count', None)]))
    register(Unit('bitsets.MemberBits.bits', BASES, 'MemberBits.bits', _unit(_bits),
                  assumptions=['class invariant of a bitset class (unit bitsets.Meta.__init__); requires _len >= 1 (concepts: CtxInv, no empty axis)',
                               'lemma instance (Lean, lemmas/BitsBin.lean): L_fmtb_shape = length_fmtB_of_lt\', fmtB_getElem; A_reverse_getElem',
                               "LIBRARY (validated, never proved): CPython's '{0:0{1}b}'.format / [::-1] compute fmtB / reverse of lemmas/BitsBin.lean"],
                  linkage=[(LINK + 'bases.MemberBits.bits', None), ('ctx._Objects.bits', None), ('ctx._Properties.bits', None)]))


# ---------------------------------------------------------------------------------------------------------------------
# the remaining users of bin(self).count('1') in bases.py (not reached by concepts; two lines each): shortcolex / longcolex, BitSet.__len__

def _count_ones(which):
    def body(path):
        W, x, atoms, meths = _class_env(path)
        T = bintext.Z3B()
        K = Texts(path, T)
        meths[('Bits', '_int')] = _prop(lambda p, a, kw: IntV(a[0].t))
        meths[('Bits', '_len')] = _prop(lambda p, a, kw: IntV(W))

        def finish(path, env, outcome):
            r = outcome[1] if outcome[0] == 'return' else None
            if which == '__len__':
                path.oblige('post/number-of-members', 'post', (r.t == T.card(x)) if isinstance(r, IntV) else BoolVal(False))
                return
            ok = isinstance(r, TupleV) and len(r.items) == 2 and all(isinstance(v, IntV) for v in r.items)
            sign = 1 if which == 'shortcolex' else -1
            path.oblige('post/(%smember count, the set as a number)' % ('' if sign == 1 else '-'), 'post',
                        And(r.items[0].t == sign * T.card(x), r.items[1].t == x) if ok else BoolVal(False))
        return {'self': IntV(x, 'Bits')}, {'int_methods': meths, 'globals': _globals(K)}, finish
    return body


if BASES:
    for _w, _qn in (('shortcolex', 'MemberBits.shortcolex'), ('longcolex', 'MemberBits.longcolex'), ('__len__', 'BitSet.__len__')):
        register(Unit('bitsets.' + _qn, BASES, _qn, _unit(_count_ones(_w)),
                      assumptions=['class invariant of a bitset class; lemma instance L_bin_count (Lean: count_one_bin)',
                                   "LIBRARY (validated, never proved): CPython's bin / str.count compute the definitions of lemmas/BitsBin.lean",
                                   'not reached by concepts (its classes derive from MemberBits and use shortlex / longlex / count)'],
                      linkage=[(LINK + 'bases.' + _qn, None)]))


# ---------------------------------------------------------------------------------------------------------------------
# lemma: the shortlex() key realises the documented short-lexicographic order, and a proper subset comes first (L-SLEX)

def _lemma_shortlex_key():
    from contracts.bitsets_powerset import PW
    P = PW()
    T = bintext.Z3B()

    def prove(path):
        a, b, ra, rb, r0, k = Ints('a b ra rb r0 k')
        dom = lambda v: And(v >= 0, ForAll([k], Implies(bit(v, k), k < r0), patterns=[bit(v, k)]))
        path.assume(And(r0 >= 1, dom(a), dom(b)))
        # posts of the units bitsets.MemberBits.shortlex for a and b: key = (card, reinverted(., r0)); the tie-break components ra, rb compare
        # as lemma.bitsets.key_order concludes (its hypotheses are the posts of unit bitsets.integers.reinverted, which shortlex() calls)
        lo = P.lo(a, b)
        path.assume(Implies(a != b, (ra < rb) == bit(a, lo)))            # lemma.bitsets.key_order: key-order-is-lexicographic-by-position
        path.assume(Implies(ra == rb, a == b))                           # lemma.bitsets.key_injective
        path.assume(Implies(a == b, ra == rb))                           # reinverted is a function of (n, r)
        ca, cb = T.card(a), T.card(b)
        tuple_less = Or(ca < cb, And(ca == cb, ra < rb))                 # python's order of the pairs (card, reinverted)
        path.oblige('key-order-is-the-documented-shortlex-order', 'lemma', tuple_less == P.less(a, b))
        path.oblige('keys-equal-only-for-equal-sets', 'lemma', Implies(And(ca == cb, ra == rb), a == b))
        # L-SLEX: a proper subset has the smaller key (BitsBin.card_lt_of_ssubset; premises obliged under the hypothesis)
        n0 = len(path.pc)
        path.assume(And(P.sub(a, b), a != b))
        use(path, 'card.ssubset', bintext.L_card_ssubset(T, a, b))
        path.oblige('proper-subset-comes-first', 'lemma', And(tuple_less, P.less(a, b)))
        # ... and the longlex key (-card, reinverted) puts the proper SUPERset first
        path.oblige('proper-superset-comes-first-in-longlex', 'lemma', Or(-cb < -ca, And(-cb == -ca, rb < ra)))
        del path.pc[n0:]
    return P.axioms(), prove


register(Unit('lemma.bitsets.shortlex_key', None, None, _lemma_shortlex_key,
              assumptions=['posts of the units bitsets.MemberBits.shortlex / longlex (key = (+-card, reinverted)); conclusions of lemma.bitsets.key_order / key_injective',
                           'BitsBin.card_lt_of_ssubset (Lean): a proper subset has fewer members', 'definition of `less` (contracts/bitsets_powerset.py)']))
