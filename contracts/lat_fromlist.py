"""Contract for lattices.Data._fromlist (C11): rebuilding a lattice from its stored list form.

requires (the stored list is trusted, DESIGN section C11):  `lattice` is a permutation sigma of the canonical list L0._tolist() of
  the lattice L0 with LatInv(L0, context): entry s describes the canonical member sigma(s); its extent / intent lists contain
  exactly the indexes of ext(sigma(s)) / Up(ext(sigma(s))) without repeats; its upper / lower lists contain exactly the stored
  positions u of the upper / lower covers (each once).  Ordered mode (unordered false): sigma = id and the inner neighbour
  lists are in canonical (shortlex / longlex) order.  Raw mode: any sigma, any inner order.
ensures  the result is initialised by _init(inst, context, concepts) with `concepts` in canonical order and, for every member:
  extent/intent as stored, index = canonical position, upper_neighbors = the members of the upper covers each once in
  shortlex order, lower_neighbors likewise in longlex order  (LatInv.1/2/5).
lemma used as instance: L-SORTED-CANONICAL -- a permutation of the canonical list sorted by the (strictly increasing) shortlex
  rank is the canonical list (a strictly increasing bijection of [0,N) is the identity; proved in Lean: lemmas/Seq.lean
  `strictMono_fin_eq_id`, `sorted_perm_range`).
"""
from z3 import And, BoolSort, BoolVal, ForAll, Function, If, Implies, Int, IntSort, Ints, MultiPattern, Not, Or

from pyvc import bits
from pyvc.bits import bit
from pyvc.engine import (BoolV, ClassV, FuncV, IntV, IterV, ListV, LoopSpec, NONE, ObjV, SeqV, StrV, TupleV, Unsupported, truthy)
from contracts import lib
from contracts.ctxtheory import Ctx
from contracts.latinv import Lat
from contracts.registry import Unit, register

I = IntSort()
B = BoolSort()


def _fromlist_unit(unordered):
    def make():
        C = Ctx()
        L = Lat(C)
        cover = Function('cover', I, I, B)
        rk, lrk = Function('rk', I, I), Function('lrk', I, I)
        sig, sigi = Function('sigma', I, I), Function('sigma.inv', I, I)
        exn, exE, exR = Function('ex.len', I, I), Function('ex.at', I, I, I), Function('ex.rank', I, I, I)
        inn, inE, inR = Function('in.len', I, I), Function('in.at', I, I, I), Function('in.rank', I, I, I)
        nU, uP, uR = Function('up.len', I, I), Function('up.at', I, I, I), Function('up.rank', I, I, I)      # stored positions
        nL, lP, lR = Function('lo.len', I, I), Function('lo.at', I, I, I), Function('lo.rank', I, I, I)
        pU, pUi = Function('sortedU.perm', I, I, I), Function('sortedU.perm.inv', I, I, I)
        pL, pLi = Function('sortedL.perm', I, I, I), Function('sortedL.perm.inv', I, I, I)
        tau, taui = Function('sorted.tau', I, I), Function('sorted.tau.inv', I, I)
        s_, t_, u_, m_, k_, e_, f_ = Ints('s t u m k e f')
        rng = lambda x: And(0 <= x, x < L.N)
        E = lambda s: L.ext(sig(s))            # the extent entry s describes
        axioms = C.axioms() + L.facts() + [
            ('sigma', ForAll([s_], Implies(rng(s_), And(rng(sig(s_)), sigi(sig(s_)) == s_)), patterns=[sig(s_)])),
            ('sigma.onto', ForAll([m_], Implies(rng(m_), And(rng(sigi(m_)), sig(sigi(m_)) == m_)), patterns=[sigi(m_)])),
            ('canonical.order', ForAll([s_, t_], Implies(And(rng(s_), rng(t_), s_ < t_), rk(L.ext(s_)) < rk(L.ext(t_))),
                                       patterns=[MultiPattern(L.ext(s_), L.ext(t_))])),
            # stored index lists of extent and intent: exactly the members, no repeats
            ('ex', ForAll([s_, t_], Implies(And(rng(s_), 0 <= t_, t_ < exn(s_)), And(exE(s_, t_) >= 0, bit(E(s_), exE(s_, t_)), exR(s_, exE(s_, t_)) == t_)),
                          patterns=[exE(s_, t_)])),
            ('ex.onto', ForAll([s_, k_], Implies(And(rng(s_), bit(E(s_), k_)), And(0 <= exR(s_, k_), exR(s_, k_) < exn(s_), exE(s_, exR(s_, k_)) == k_)),
                               patterns=[bit(E(s_), k_)])),
            ('in', ForAll([s_, t_], Implies(And(rng(s_), 0 <= t_, t_ < inn(s_)),
                                            And(inE(s_, t_) >= 0, bit(C.Up(E(s_)), inE(s_, t_)), inR(s_, inE(s_, t_)) == t_)), patterns=[inE(s_, t_)])),
            ('in.onto', ForAll([s_, k_], Implies(And(rng(s_), bit(C.Up(E(s_)), k_)),
                                                 And(0 <= inR(s_, k_), inR(s_, k_) < inn(s_), inE(s_, inR(s_, k_)) == k_)), patterns=[bit(C.Up(E(s_)), k_)])),
            # stored neighbour lists: stored positions of the covers, each once
            ('up', ForAll([s_, t_], Implies(And(rng(s_), 0 <= t_, t_ < nU(s_)), And(rng(uP(s_, t_)), cover(E(s_), E(uP(s_, t_))), uR(s_, uP(s_, t_)) == t_)),
                          patterns=[uP(s_, t_)])),
            ('up.onto', ForAll([s_, u_], Implies(And(rng(s_), rng(u_), cover(E(s_), E(u_))),
                                                 And(0 <= uR(s_, u_), uR(s_, u_) < nU(s_), uP(s_, uR(s_, u_)) == u_)), patterns=[cover(E(s_), E(u_))])),
            ('lo', ForAll([s_, t_], Implies(And(rng(s_), 0 <= t_, t_ < nL(s_)), And(rng(lP(s_, t_)), cover(E(lP(s_, t_)), E(s_)), lR(s_, lP(s_, t_)) == t_)),
                          patterns=[lP(s_, t_)])),
            ('lo.onto', ForAll([s_, u_], Implies(And(rng(s_), rng(u_), cover(E(u_), E(s_))),
                                                 And(0 <= lR(s_, u_), lR(s_, u_) < nL(s_), lP(s_, lR(s_, u_)) == u_)), patterns=[cover(E(u_), E(s_))])),
            ('lens', ForAll([s_], And(exn(s_) >= 0, inn(s_) >= 0, nU(s_) >= 0, nL(s_) >= 0), patterns=[nU(s_)])),
        ]
        if not unordered:
            axioms += [
                ('ordered.sigma', ForAll([s_], Implies(rng(s_), sig(s_) == s_), patterns=[sig(s_)])),
                ('ordered.upper', ForAll([s_, t_, u_], Implies(And(rng(s_), 0 <= t_, t_ < u_, u_ < nU(s_)), rk(E(uP(s_, t_))) <= rk(E(uP(s_, u_)))),
                                         patterns=[MultiPattern(uP(s_, t_), uP(s_, u_))])),
                ('ordered.lower', ForAll([s_, t_, u_], Implies(And(rng(s_), 0 <= t_, t_ < u_, u_ < nL(s_)), lrk(E(lP(s_, t_))) <= lrk(E(lP(s_, u_)))),
                                         patterns=[MultiPattern(lP(s_, t_), lP(s_, u_))])),
            ]

        def perm_facts(p_, pi_, n_, key, s):
            return And(
                ForAll([t_], Implies(And(0 <= t_, t_ < n_(s)), And(0 <= p_(s, t_), p_(s, t_) < n_(s), pi_(s, p_(s, t_)) == t_)), patterns=[p_(s, t_)]),
                ForAll([t_], Implies(And(0 <= t_, t_ < n_(s)), And(0 <= pi_(s, t_), pi_(s, t_) < n_(s), p_(s, pi_(s, t_)) == t_)), patterns=[pi_(s, t_)]),
                ForAll([t_, u_], Implies(And(0 <= t_, t_ < u_, u_ < n_(s)), key(s, p_(s, t_)) <= key(s, p_(s, u_))),
                       patterns=[MultiPattern(p_(s, t_), p_(s, u_))]))
        keyU = lambda s, t: rk(E(uP(s, t)))
        keyL = lambda s, t: lrk(E(lP(s, t)))

        def harness(path):
            cnt = path.eng.counter

            def fn(name, *sorts):
                return Function('%s!%d' % (name, next(cnt)), *sorts)
            st = {'index': fn('index', I, I), 'unlen': fn('un.len', I, I), 'unat': fn('un.at', I, I, I),
                  'lnlen': fn('ln.len', I, I), 'lnat': fn('ln.at', I, I, I), 'conv': fn('converted', I, B), 'arr': fn('arr', I, I)}
            path.assume(ForAll([s_], Not(st['conv'](s_)), patterns=[st['conv'](s_)]))
            path.assume(ForAll([s_], st['arr'](s_) == s_, patterns=[st['arr'](s_)]))
            calls = []
            inst = ObjV('Lattice', {}, name='inst')
            inst.own_instance = True      # the result of `object.__new__(cls)`: an instance of the class under contract (its methods that the contract
            #                               does not know are the methods of that class, executed in place like those called on `self`)
            snapshot = {}

            def cobj(s):
                c = ObjV('Concept', {'lattice': inst}, name='cobj[%s]' % s)
                c.ident = s
                c.fields['_extent'] = IntV(E(s), 'Objects')

                def getattr_(p, o, attr):
                    if attr in ('upper_neighbors', 'lower_neighbors'):
                        p.oblige('read/raw-list-of-a-member-not-yet-converted', 'pre@call', Not(st['conv'](s)))
                        if attr == 'upper_neighbors':
                            return SeqV(lambda t: IntV(uP(s, t)), nU(s), 'raw-upper[%s]' % s)
                        return SeqV(lambda t: IntV(lP(s, t)), nL(s), 'raw-lower[%s]' % s)
                    raise Unsupported('member attribute %s' % attr)

                def setattr_(p, o, attr, v):
                    if attr == 'index':
                        x2 = fn('index', I, I)
                        p.assume(ForAll([s_], x2(s_) == If(s_ == s, v.t, st['index'](s_)), patterns=[x2(s_), st['index'](s_)]))
                        st['index'] = x2
                    elif attr in ('upper_neighbors', 'lower_neighbors'):
                        ln, at = ('unlen', 'unat') if attr == 'upper_neighbors' else ('lnlen', 'lnat')
                        if not isinstance(v, SeqV):
                            raise Unsupported('store of %r to %s' % (v, attr))
                        l2, a2 = fn(ln, I, I), fn(at, I, I, I)
                        tt = Int('tt')
                        n0 = len(p.pc)
                        p.pc.append(And(0 <= tt, tt < v.length))    # element obligations (index safety) for an arbitrary position
                        el = v.at(tt)
                        del p.pc[n0:]
                        p.assume(ForAll([s_], l2(s_) == If(s_ == s, v.length, st[ln](s_)), patterns=[l2(s_), st[ln](s_)]))
                        p.assume(ForAll([s_, tt], a2(s_, tt) == If(s_ == s, el.ident, st[at](s_, tt)), patterns=[a2(s_, tt), st[at](s_, tt)]))
                        st[ln], st[at] = l2, a2
                        if attr == 'lower_neighbors':
                            c2 = fn('converted', I, B)
                            p.assume(ForAll([s_], c2(s_) == Or(s_ == s, st['conv'](s_)), patterns=[c2(s_), st['conv'](s_)]))
                            st['conv'] = c2
                    else:
                        raise Unsupported('store to member.%s' % attr)
                c.fields['__getattr__'] = getattr_
                c.fields['__setattr__'] = setattr_
                return c

            # ---- the stored list
            def entry(s):
                def idxlist(n_, at_, nm):
                    v = SeqV(lambda t: IntV(at_(s, t)), n_(s), '%s[%s]' % (nm, s))
                    v.entry, v.kind = s, nm
                    return v
                up = SeqV(lambda t: IntV(uP(s, t)), nU(s), 'up[%s]' % s)
                lo = SeqV(lambda t: IntV(lP(s, t)), nL(s), 'lo[%s]' % s)
                up.entry, up.kind, lo.entry, lo.kind = s, 'up', s, 'lo'
                return TupleV([idxlist(exn, exE, 'ex'), idxlist(inn, inE, 'in'), up, lo])
            lattice = IterV(entry, L.N, 'lattice')

            def sum_(p, args, kw):
                (it,) = args
                if not isinstance(it, (IterV, SeqV)):
                    raise Unsupported('sum of %r' % (it,))
                # builtin sum over 1 << e for a duplicate-free index list: the natural number with exactly those bits
                # (assumed arithmetic contract: the sum of distinct powers of two is their bitwise or)
                from z3 import substitute
                t = p.fresh_int('t')
                n0 = len(p.pc)
                p.pc.append(And(0 <= t, t < it.length))        # hypothetically, for an arbitrary position of the generator
                el = it.at(t)
                del p.pc[n0:]
                n_ = next(cnt)
                R = Int('sum!%d' % n_)
                wit = Function('sum.w!%d' % n_, I, I)
                ex_of = Function('sum.e!%d' % n_, I, I)
                shape = isinstance(el, IntV) and el.t.decl().name() == 'atomv'
                p.oblige('pre@sum/atoms', 'pre@call', BoolVal(shape))      # each summand is 1 << e_t
                if not shape:
                    raise Unsupported('sum of other than 1 << e terms')
                e_t = el.t.arg(0)
                p.assume(ForAll([t_], Implies(And(0 <= t_, t_ < it.length), ex_of(t_) == substitute(e_t, (t, t_))), patterns=[ex_of(t_)]))
                p.assume(R >= 0)
                e_gen = substitute(e_t, (t, t_))
                p.assume(ForAll([t_], Implies(And(0 <= t_, t_ < it.length), bit(R, e_gen)), patterns=[ex_of(t_), e_gen]))
                p.assume(ForAll([k_], Implies(bit(R, k_), And(0 <= wit(k_), wit(k_) < it.length, ex_of(wit(k_)) == k_)), patterns=[bit(R, k_)]))
                r = IntV(R)
                r.sum_of = (it, ex_of)
                return r

            context = ObjV('Context', {}, name='context')
            for tag in ('Objects', 'Properties'):
                context.fields['_' + tag] = ObjV('BitSetClass', {'fromint': FuncV(tag + '.fromint', lambda p, a, k, _t=tag: _tagged(a[-1], _t))}, name='_' + tag)

            def _tagged(v, tag):
                r = IntV(v.t, tag)
                r.sum_of = getattr(v, 'sum_of', None)
                return r

            def concept_ctor(p, args, kw):
                ok = len(args) == 5 and args[0] is inst and isinstance(args[1], IntV) and isinstance(args[2], IntV)
                p.oblige('Concept(...)/arguments', 'pre@call', BoolVal(ok and args[1].tag == 'Objects' and args[2].tag == 'Properties'))
                s = getattr(args[3], 'entry', None)
                p.oblige('Concept(...)/neighbour-lists-of-the-same-entry', 'pre@call',
                         BoolVal(s is not None and getattr(args[3], 'kind', None) == 'up' and getattr(args[4], 'kind', None) == 'lo'
                                 and args[4].entry is s))
                if s is None:
                    raise Unsupported('constructor arguments')
                # the sums of the stored index lists are the stored extent and intent (B9 extensionality instances)
                p.assume(bits.ext_instance(args[1].t, E(s), p.fresh_int('wext')))
                p.assume(bits.ext_instance(args[2].t, C.Up(E(s)), p.fresh_int('wext')))
                from contracts.lemmas_z3 import Side, use_galois
                use_galois(p, Side(C, 'O'), E(s))
                p.oblige('Concept(...)/extent-is-the-stored-extent', 'pre@call', args[1].t == E(s))
                p.oblige('Concept(...)/intent-is-the-stored-intent', 'pre@call', args[2].t == C.Up(E(s)))
                return cobj(s)

            class ConceptsList(ObjV):
                pass
            concepts = ObjV('list', {}, name='concepts')
            concepts.fields['__getitem__'] = FuncV('list.__getitem__', lambda p, a, k: _item(p, a[-1]))
            concepts.fields['__iter__'] = FuncV('list.__iter__', lambda p, a, k: IterV(lambda q, _arr=st['arr']: cobj(_arr(q)), L.N, 'iter(concepts)'))
            concepts.fields['__len__'] = FuncV('list.__len__', lambda p, a, k: IntV(L.N))      # one member per entry of the stored list

            def _item(p, i):
                p.oblige('index@concepts', 'index', And(0 <= i.t, i.t < L.N))
                return cobj(st['arr'](i.t))

            def sort_(p, args, kw):
                ok = set(kw) == {'key'}
                r = kw['key'].fn(p, [cobj(p.fresh_int('s'))], {}) if ok else None
                p.oblige('pre@sort/by-shortlex', 'pre@call', BoolVal(ok and getattr(r, 'tag', None) == 'slexKey'))
                # list.sort: a permutation of the positions, ascending in the key (stable)
                a2 = fn('arr', I, I)
                p.assume(ForAll([s_], a2(s_) == tau(s_), patterns=[a2(s_)]))
                p.assume(And(
                    ForAll([t_], Implies(rng(t_), And(rng(tau(t_)), taui(tau(t_)) == t_)), patterns=[tau(t_)]),
                    ForAll([t_], Implies(rng(t_), And(rng(taui(t_)), tau(taui(t_)) == t_)), patterns=[taui(t_)]),
                    ForAll([t_, u_], Implies(And(0 <= t_, t_ < u_, u_ < L.N), rk(E(tau(t_))) <= rk(E(tau(u_)))), patterns=[MultiPattern(tau(t_), tau(u_))])))
                # use lemma L-SORTED-CANONICAL: sorted by the strictly increasing canonical rank = the canonical arrangement
                p.assume(ForAll([t_], Implies(rng(t_), sig(tau(t_)) == t_), patterns=[tau(t_)]))
                st['arr'] = a2
                return NONE
            sf = FuncV('list.sort', sort_)
            sf.is_method = True
            concepts.fields['sort'] = sf

            def enumerate_(p, args, kw):
                (it,) = args
                arr = st['arr']
                if it is not concepts:
                    raise Unsupported('enumerate of %r' % (it,))
                e = IterV(lambda q: TupleV([IntV(q), cobj(arr(q))]), L.N, 'enumerate(concepts)')
                e.arr = arr
                return e

            def dict_(p, args, kw):
                (it,) = args
                arr = getattr(it, 'arr', None)
                if arr is None:
                    raise Unsupported('dict of %r' % (it,))
                d = ObjV('dict', {}, name='index_map')

                def get(p2, a2, k2):
                    i = a2[-1]
                    p2.oblige('key@index_map', 'key', And(0 <= i.t, i.t < L.N))
                    return cobj(arr(i.t))        # the arrangement at the time the dict was built
                d.fields['__getitem__'] = FuncV('dict.__getitem__', get)
                return d

            def sorted_(p, args, kw):
                (seq,) = args
                k = p.ghost['k']
                cur = st['arr'](k)           # stored position of the member processed in this iteration
                r = kw['key'].fn(p, [cobj(p.fresh_int('s'))], {}) if set(kw) == {'key'} else None
                which = {'slexKey': 'U', 'llexKey': 'L'}.get(getattr(r, 'tag', None))
                p.oblige('pre@sorted/key', 'pre@call', BoolVal(which is not None))
                if which is None:
                    raise Unsupported('sorted key')
                pp, ppi, n_, key, P_ = (pU, pUi, nU, keyU, uP) if which == 'U' else (pL, pLi, nL, keyL, lP)
                t = p.fresh_int('t')
                p.oblige('pre@sorted/length-%s' % which, 'pre@call', seq.length == n_(cur))
                n0 = len(p.pc)
                p.pc.append(And(0 <= t, t < n_(cur)))
                el = seq.at(t)
                p.oblige('pre@sorted/sequence-%s' % which, 'pre@call', el.ident == P_(cur, t))
                del p.pc[n0:]
                p.assume(perm_facts(pp, ppi, n_, key, cur))
                return SeqV(lambda q: cobj(P_(cur, pp(cur, q))), n_(cur), 'sorted-%s' % which)
            inst.fields['_shortlex'] = FuncV('_shortlex', lambda p, a, k: IntV(rk(a[-1].fields['_extent'].t), 'slexKey'))
            inst.fields['_longlex'] = FuncV('_longlex', lambda p, a, k: IntV(lrk(a[-1].fields['_extent'].t), 'llexKey'))
            cls = ObjV('class', {'_init': FuncV('cls._init', lambda p, a, k: calls.append(('_init', a, k, st['arr'])) or NONE)}, name='cls')
            obj = ObjV('class', {'__new__': FuncV('object.__new__', lambda p, a, k: calls.append(('new', a, k)) or inst)}, name='object')
            g = dict(lib.builtins(), sum=FuncV('sum', sum_), Concept=FuncV('Concept', concept_ctor), object=obj, enumerate=FuncV('enumerate', enumerate_),
                     dict=FuncV('dict', dict_), sorted=FuncV('sorted', sorted_))

            def closed_concepts(interp, env_, node):
                gnode = node.generators[0]
                it = interp.eval(gnode.iter, env_)
                path.oblige('closed-form/concepts-over-the-stored-list', 'post', BoolVal(it is lattice and not gnode.ifs))
                s = path.fresh_int('s')
                n0 = len(path.pc)
                path.pc.append(rng(s))
                inner = dict(env_)
                interp.assign(gnode.target, lattice.at(s), inner)
                el = interp.eval(node.elt, inner)
                path.oblige('closed-form/concepts-element', 'post', (el.ident == s) if getattr(el, 'ident', None) is not None else BoolVal(False))
                del path.pc[n0:]
                return concepts

            def inv_unordered(e, k):
                ix, ul, ua, ll, la, cv, arr = (st[x] for x in ('index', 'unlen', 'unat', 'lnlen', 'lnat', 'conv', 'arr'))
                done = lambda s: And(rng(s), taui(s) < k)
                return [
                    ('arrangement', ForAll([s_], arr(s_) == tau(s_), patterns=[arr(s_)])),
                    ('index', ForAll([s_], Implies(done(s_), ix(s_) == taui(s_)), patterns=[ix(s_)])),
                    ('converted', ForAll([s_], cv(s_) == done(s_), patterns=[cv(s_)])),
                    ('upper', ForAll([s_], Implies(done(s_), And(ul(s_) == nU(s_), perm_facts(pU, pUi, nU, keyU, s_))), patterns=[ul(s_)])),
                    ('upper-elements', ForAll([s_, t_], Implies(And(done(s_), 0 <= t_, t_ < nU(s_)), ua(s_, t_) == uP(s_, pU(s_, t_))), patterns=[ua(s_, t_)])),
                    ('lower', ForAll([s_], Implies(done(s_), And(ll(s_) == nL(s_), perm_facts(pL, pLi, nL, keyL, s_))), patterns=[ll(s_)])),
                    ('lower-elements', ForAll([s_, t_], Implies(And(done(s_), 0 <= t_, t_ < nL(s_)), la(s_, t_) == lP(s_, pL(s_, t_))), patterns=[la(s_, t_)])),
                ]

            def inv_ordered(e, k):
                ix, ul, ua, ll, la, cv, arr = (st[x] for x in ('index', 'unlen', 'unat', 'lnlen', 'lnat', 'conv', 'arr'))
                done = lambda s: And(0 <= s, s < k)
                return [
                    ('arrangement', ForAll([s_], arr(s_) == s_, patterns=[arr(s_)])),
                    ('index', ForAll([s_], Implies(done(s_), ix(s_) == s_), patterns=[ix(s_)])),
                    ('converted', ForAll([s_], cv(s_) == done(s_), patterns=[cv(s_)])),
                    ('upper', ForAll([s_], Implies(done(s_), ul(s_) == nU(s_)), patterns=[ul(s_)])),
                    ('upper-elements', ForAll([s_, t_], Implies(And(done(s_), 0 <= t_, t_ < nU(s_)), ua(s_, t_) == uP(s_, t_)), patterns=[ua(s_, t_)])),
                    ('lower', ForAll([s_], Implies(done(s_), ll(s_) == nL(s_)), patterns=[ll(s_)])),
                    ('lower-elements', ForAll([s_, t_], Implies(And(done(s_), 0 <= t_, t_ < nL(s_)), la(s_, t_) == lP(s_, t_)), patterns=[la(s_, t_)])),
                ]

            def havoc(p, env_):
                st.update({'index': fn('index', I, I), 'unlen': fn('un.len', I, I), 'unat': fn('un.at', I, I, I),
                           'lnlen': fn('ln.len', I, I), 'lnat': fn('ln.at', I, I, I), 'conv': fn('converted', I, B), 'arr': fn('arr', I, I)})
            loops = {'globals': g, 0: LoopSpec(inv_unordered, ghost_havoc=havoc), 1: LoopSpec(inv_ordered, ghost_havoc=havoc),
                     'closed_form': {'ListComp#0': closed_concepts}}
            env = {'cls': cls, 'context': context, 'lattice': lattice, 'unordered': BoolV(BoolVal(unordered))}

            def finish(path, env_, outcome):
                if outcome[0] != 'return':
                    path.oblige('post/no-exception', 'post', BoolVal(False))
                    return
                path.oblige('post/returns-the-new-lattice', 'post', BoolVal(outcome[1] is inst))
                names = [c[0] for c in calls]
                path.oblige('post/calls', 'post', BoolVal(names == ['new', '_init']))
                if names != ['new', '_init']:
                    return
                a, k, arr = calls[1][1], calls[1][2], calls[1][3]
                path.oblige('post/_init-call', 'post', BoolVal(len(a) == 3 and a[0] is inst and a[1] is context and a[2] is concepts and not k))
                ix, ul, ua, ll, la = st['index'], st['unlen'], st['unat'], st['lnlen'], st['lnat']
                # LatInv.2: concepts handed to _init in canonical order; index = canonical position
                path.oblige('post/concepts-in-canonical-order', 'post', ForAll([t_], Implies(rng(t_), sig(arr(t_)) == t_), patterns=[arr(t_)]))
                path.oblige('post/index-is-the-canonical-position', 'post', ForAll([s_], Implies(rng(s_), ix(s_) == sig(s_)), patterns=[ix(s_)]))
                # LatInv.5
                path.oblige('post/upper-neighbors-are-covers', 'post',
                            ForAll([s_, t_], Implies(And(rng(s_), 0 <= t_, t_ < ul(s_)), And(rng(ua(s_, t_)), cover(E(s_), E(ua(s_, t_))))), patterns=[ua(s_, t_)]))
                path.oblige('post/upper-neighbors-sorted-by-shortlex', 'post',
                            ForAll([s_, t_, u_], Implies(And(rng(s_), 0 <= t_, t_ < u_, u_ < ul(s_)), rk(E(ua(s_, t_))) <= rk(E(ua(s_, u_)))),
                                   patterns=[MultiPattern(ua(s_, t_), ua(s_, u_))]))
                path.oblige('post/lower-neighbors-are-covers', 'post',
                            ForAll([s_, t_], Implies(And(rng(s_), 0 <= t_, t_ < ll(s_)), And(rng(la(s_, t_)), cover(E(la(s_, t_)), E(s_)))), patterns=[la(s_, t_)]))
                path.oblige('post/lower-neighbors-sorted-by-longlex', 'post',
                            ForAll([s_, t_, u_], Implies(And(rng(s_), 0 <= t_, t_ < u_, u_ < ll(s_)), lrk(E(la(s_, t_))) <= lrk(E(la(s_, u_)))),
                                   patterns=[MultiPattern(la(s_, t_), la(s_, u_))]))
                if unordered:
                    path.oblige('post/every-upper-cover-once', 'post',
                                ForAll([s_, u_], Implies(And(rng(s_), rng(u_), cover(E(s_), E(u_))),
                                                         And(0 <= pUi(s_, uR(s_, u_)), pUi(s_, uR(s_, u_)) < ul(s_), ua(s_, pUi(s_, uR(s_, u_))) == u_)),
                                       patterns=[cover(E(s_), E(u_))]))
                    path.oblige('post/every-lower-cover-once', 'post',
                                ForAll([s_, u_], Implies(And(rng(s_), rng(u_), cover(E(u_), E(s_))),
                                                         And(0 <= pLi(s_, lR(s_, u_)), pLi(s_, lR(s_, u_)) < ll(s_), la(s_, pLi(s_, lR(s_, u_))) == u_)),
                                       patterns=[cover(E(u_), E(s_))]))
                else:
                    path.oblige('post/every-upper-cover-once', 'post',
                                ForAll([s_, u_], Implies(And(rng(s_), rng(u_), cover(E(s_), E(u_))),
                                                         And(0 <= uR(s_, u_), uR(s_, u_) < ul(s_), ua(s_, uR(s_, u_)) == u_)), patterns=[cover(E(s_), E(u_))]))
                    path.oblige('post/every-lower-cover-once', 'post',
                                ForAll([s_, u_], Implies(And(rng(s_), rng(u_), cover(E(u_), E(s_))),
                                                         And(0 <= lR(s_, u_), lR(s_, u_) < ll(s_), la(s_, lR(s_, u_)) == u_)), patterns=[cover(E(u_), E(s_))]))
            return env, loops, finish
        return axioms, harness
    return make


for _u in (True, False):
    register(Unit('lattices._fromlist.' + ('raw' if _u else 'ordered'), 'concepts/lattices.py', 'Data._fromlist', _fromlist_unit(_u),
                  assumptions=['requires: the stored list is (a permutation of) the canonical list of the lattice of this context, index lists without repeats (trusted input)',
                               'builtin sum of distinct powers of two = the natural number with exactly those bits (assumed arithmetic contract)',
                               'list.sort / sorted: permutation, ascending by key; dict(enumerate(list)) snapshots the arrangement at that time',
                               'lemma L-SORTED-CANONICAL (Lean: lemmas/Seq.lean strictMono_fin_eq_id / sorted_perm_range): sorting a permutation of the canonical list by the strictly increasing rank gives the canonical list',
                               'contract of _init (unit lattices._init)'],
                  linkage=[('type(lat)._fromlist', None)]))
