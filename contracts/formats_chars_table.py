"""CHARACTER-level round trip of the TABLE format and of the FIMI index rows (C12), after the model of contracts/formats_chars.py (cxt).

The line-level units of contracts/formats_lines.py prove WHICH lines `table.dump_file` writes (which template, which argument tuple) and
WHICH piece of which line read becomes which component in `table.load_file`, with the string layer opaque.  This module closes that
layer as far as it can be closed:

  pyvc/texts.py        TEXT theory (class Z3TT: the vocabulary of cxt plus padding, partition, strip of a given character, rstrip, the lines
                       of a text file, the csv reader's fields); every lemma stated once as a schema over an interpretation (z3 terms here,
                       CPython's own functions in the self-test)
  lemmas/Text.lean     the definitions over `List Char` (section "the table format") and the PROOFS of all the schemas marked "Lean"
  ASSUMED, VALIDATED   "CPython's functions compute the functions defined in Text.lean" (str methods, and the % operator on templates of literal
                       text and %-<digits>s / %<digits>s conversions: pctFormat), print / io.StringIO (L_written, L_readlines), the csv module in
                       the FIMI dialect (L_csv_written, L_csv_rows): pyvc/texts.py selftest() / selftest_lean() -- an enumerated scope, not a proof.

Units
  lemma.table.roundtrip             composition over the CONTRACTS of the proved units (table.dump_file, tools.max_len, Format.dumps / loads,
                                    table.load_file): under REP below and for EVERY int `indent`, Table.loads(Table.dumps(objects, properties,
                                    bools, indent=indent)) returns ContextArgs(objects, properties, bools) -- same lengths, labels, cells.
                                    `dumps` right-strips the text (Table.dumps_rstrip is True): the last line loses its line end, nothing else.
  formats.table.load_file.written   the REAL code of table.load_file executed by the engine on the written text, its string calls answered by the
                                    TEXT theory: that no stripped line is dropped by filter(None, ...) and that there are at least two of
                                    them (no IndexError / ValueError) are OBLIGATIONS here, and the result must be the given triple.
  formats.table.dump_file.chars     the REAL code of table.dump_file executed on the abstract table, its `%` answered by the lemma L_percent
                                    (Lean pct_line) read off the TEMPLATE THE CODE BUILDS ('%-{w:d}s' or '%{w:d}s' columns): the
                                    written text read back by the load_file CONTRACT is the given triple (judges changes of the writer that
                                    the line-level unit can only report as "a different template").
  lemma.fimi.roundtrip              write_concepts_dat then read_concepts_dat (contracts of the proved units, the csv module assumed in the
                                    FIMI dialect): the tuples read are the index lists written; an empty set is an EMPTY LINE and comes back as
                                    the EMPTY TUPLE (the csv reader yields [] for an empty line -- not [''], which int() would reject).
  lemma.fimi.context_rows           Fimi.dumps (iter_fimi_rows / dump_file through Format.dumps) read by the same reader: row r comes back as the
                                    ascending indexes of the true cells of row r.
  formats.fimi.read_concepts_dat.written   the REAL code of read_concepts_dat on the rows the csv reader makes of the written text.

Every step is one of [contract] [source] [library] [lean] [z3], as in contracts/formats_chars.py.

REP for the table format (`necessity()`: the proof loses an obligation when a conjunct is dropped; bounded/table_rep.py: exact on 3 952 632 tables)
  n = len(objects) >= 1, len(bools) == n, every row has m = len(properties) cells, m >= 1
  every OBJECT label x:    no '\\n', '\\r', '|', '#' in x; x does not start or end with a whitespace character (str.isspace).  x == '' IS allowed.
  every PROPERTY label x:  the same, and x != ''.
  `indent`: any int (' ' * indent is '' for indent <= 0).
  REP is weaker than the property statement of C12 in one point (an object label may be empty: its cell is all padding, the line still starts
  with its column bar).  It is NOT the exact domain of success in one ACCIDENTAL case that the lemma does not cover: a table whose ONLY
  property label is '' comes back right, because ''.split('|') == [''] happens to have one item (bounded/table_rep.py counts these 528 cases
  separately; with two or more properties an empty one is lost).

NEGATIVE KNOWLEDGE: the real round trip on the UNCHANGED tree (/venv/bin/python, objects ['a','b'], properties ['c','d'], bools
[(True, False), (False, True)], one label replaced at a time; NO exception in any of these cases, the result is silently wrong):
  label ' x', 'x ', 'x\\x85', '\\u3000x'     anywhere: read back as 'x';   ' ', '\\x1c': read back as ''
  label 'x|y'   object: 'x' with one cell more;  property: two properties 'x', 'y'          label '|': as '' with a cell more / a property less
  label 'x#y'   object: 'x' and the row loses its cells;  property: the header ends at 'x'   label '#': the object line / the rest of the header is dropped
  label 'x\\ny', 'x\\ry'  one line more: an object 'y' appears (print / io.StringIO(newline=None) turns '\\r' into '\\n')
  property ''   with m >= 2: the property is lost ('||' is stripped / split differently), the rows keep their cells
  properties == []:  one property '' and one False cell per row come back;   objects == []:  ValueError (zip(*[]) unpacked into two names)
  len(row) != m:  TypeError from the % operator
"""
import ast

from z3 import And, BoolSort, BoolVal, Const, ForAll, Function, If, Implies, Int, IntSort, MultiPattern

from pyvc import bits, extract, texts
from pyvc.engine import BoolV, FuncV, IntV, IterV, NoneV, ObjV, SeqV, StrV, TupleV, Unsupported
from contracts import formats_chars as fc
from contracts.formats_chars import _q, under, z3_subst
from contracts.persist import meth
from contracts.registry import Unit, register

I, B = IntSort(), BoolSort()
TAB, BASE, FIMI = 'concepts/formats/table.py', 'concepts/formats/base.py', 'concepts/formats/fimi.py'


# ---------------------------------------------------------------------------------------------------------------------
# [source] the constants of the two format classes

def _staticmethod_of(node):
    """NAME for the expression staticmethod(NAME), else None"""
    if isinstance(node, ast.Call) and isinstance(node.func, ast.Name) and node.func.id == 'staticmethod' and len(node.args) == 1 \
            and not node.keywords and isinstance(node.args[0], ast.Name):
        return node.args[0].id
    return None


def class_constants(relpath, name, attrs):
    """the attributes `attrs` of the class `name` as the class statement computes them (own body over the module constants, else the
    defaults of Format), KeyError where neither assigns the name; 'loadf' / 'dumpf': the function NAME wrapped in staticmethod(...)"""
    _, base = extract.parse_file(BASE)
    _, mod = extract.parse_file(relpath)
    cls = fc._class_body(mod, name)
    inherited = fc._simple_assigns(fc._class_body(base, 'Format').body, {})
    own = fc._simple_assigns(cls.body, fc._simple_assigns(mod.body, {}))
    assigned = fc._assigned(cls.body)
    out = {k: (own.get(k, KeyError) if k in assigned else inherited.get(k, KeyError)) for k in attrs}
    for st in cls.body:
        if isinstance(st, ast.Assign) and len(st.targets) == 1 and isinstance(st.targets[0], ast.Name) and st.targets[0].id in ('loadf', 'dumpf'):
            out[st.targets[0].id] = _staticmethod_of(st.value)
    out['subclass_of_Format'] = len(cls.bases) == 1 and isinstance(cls.bases[0], ast.Name) and cls.bases[0].id == 'Format'
    return out


def fimi_dialect_constants():
    """the class body of FimiDialect, evaluated (csv.QUOTE_NONE as the name 'QUOTE_NONE'; chained assignments a = b = value)"""
    _, mod = extract.parse_file(FIMI)
    cls = fc._class_body(mod, 'FimiDialect')
    out = {}
    for st in cls.body:
        if not isinstance(st, ast.Assign):
            continue
        v = st.value
        if isinstance(v, ast.Attribute) and isinstance(v.value, ast.Name) and v.value.id == 'csv':
            val = v.attr
        else:
            try:
                val = fc._const_eval(v, {})
            except Unsupported:
                val = KeyError
        for tg in st.targets:
            if isinstance(tg, ast.Name):
                out[tg.id] = val
    base_ok = len(cls.bases) == 1 and isinstance(cls.bases[0], ast.Attribute) and cls.bases[0].attr == 'Dialect'
    return out, base_ok


# ---------------------------------------------------------------------------------------------------------------------
# applying a lemma schema (premises are obligations, then -- and only then -- the conclusion is assumed)

def prove_items(path, tag, items):
    for it in items:
        if it[0] == 'forall2':
            _, name, lo, hi, lo2, hi2, body, pat = it
            t, c = path.fresh_int('t'), path.fresh_int('c')
            path.oblige('%s/%s' % (tag, name), 'lemma', Implies(And(lo <= t, t < hi, lo2(t) <= c, c < hi2(t)), body(t, c)))
            path.assume(_q2(lo, hi, lo2, hi2, body, pat))
        else:
            fc.prove_items(path, tag, [it])


def _q2(lo, hi, lo2, hi2, body, pat):
    q, c = Int('q'), Int('c')
    return ForAll([q, c], Implies(And(lo <= q, q < hi, lo2(q) <= c, c < hi2(q)), body(q, c)), patterns=[pat(q, c)])


def assume_items(path, items):
    for it in items:
        path.assume(_q2(*it[2:]) if it[0] == 'forall2' else (it[2] if it[0] == 'fact' else _q(*it[2:])))


def use(path, tag, schema):
    prem, concl = schema
    prove_items(path, tag + '/premise', prem)
    assume_items(path, concl)


def use_indexed(path, tag, lo, hi, schema_at, pat_at):
    """the schema at every index lo <= q < hi: premises (facts and quantified ones) proved at an arbitrary index t of the range (and an
    arbitrary inner index), the conclusions assumed for all q (schema_at(t) -> (premises, conclusions); pat_at(q): trigger of the facts)"""
    t, q, c = path.fresh_int('t'), Int('q'), Int('c')
    prem, concl = schema_at(t)
    guard = And(lo <= t, t < hi)
    for it in prem:
        if it[0] == 'fact':
            path.oblige('%s/premise/%s' % (tag, it[1]), 'lemma', Implies(guard, it[2]))
        elif it[0] == 'forall':
            _, name, lo2, hi2, body, pat = it
            c2 = path.fresh_int('c')
            path.oblige('%s/premise/%s' % (tag, name), 'lemma', Implies(And(guard, lo2 <= c2, c2 < hi2), body(c2)))
        else:
            raise Unsupported('indexed schema with a doubly quantified premise')
    sub = lambda f: z3_subst(f, t, q)
    for it in concl:
        if it[0] == 'fact':
            path.assume(ForAll([q], Implies(sub(guard), sub(it[2])), patterns=[pat_at(q)]))
        elif it[0] == 'forall':
            _, _, lo2, hi2, body, pat = it
            path.assume(ForAll([q, c], Implies(And(sub(guard), sub(lo2) <= c, c < sub(hi2)), sub(body(c))), patterns=[sub(pat(c))]))
        else:
            raise Unsupported('indexed schema with a doubly quantified conclusion')


def use_indexed2(path, tag, lo, hi, lo2, hi2, schema_at, pat_at):
    """the schema at every pair lo <= q < hi, lo2(q) <= c < hi2(q): premises (facts) proved at an arbitrary pair, the conclusions (facts)
    assumed for all pairs"""
    t, c = path.fresh_int('t'), path.fresh_int('c')
    prem, concl = schema_at(t, c)
    for it in prem:
        if it[0] != 'fact':
            raise Unsupported('doubly indexed schema with a quantified premise')
        path.oblige('%s/premise/%s' % (tag, it[1]), 'lemma', Implies(And(lo <= t, t < hi, lo2(t) <= c, c < hi2(t)), it[2]))
    for it in concl:
        if it[0] != 'fact':
            raise Unsupported('doubly indexed schema with a quantified conclusion')
        path.assume(_q2(lo, hi, lo2, hi2, lambda q, c_, _it=it: schema_at_fact(schema_at, q, c_, _it[1]), pat_at))


def schema_at_fact(schema_at, q, c, name):
    for it in schema_at(q, c)[1]:
        if it[1] == name:
            return it[2]
    raise KeyError(name)


def _axioms(T):
    return bits.axioms() + T.axioms()


# ---------------------------------------------------------------------------------------------------------------------
# the abstract table, REP, and the text written by Table.dumps with everything the lemma library says about it

LABEL_PARTS = ('nonl', 'nocr', 'lead', 'trail', 'nobar', 'nohash')


class WrittenTable:
    """The abstract table (n objects, m properties, cells), REP, the constants of the source, the lines table.dump_file writes (from its
    CONTRACT: `contract_lines`, or from a run of the real code: `describe_lines` called by unit formats.table.dump_file.chars), the text
    Table.dumps makes of them and the lines the file object handed to load_file yields, with the instances of the lemma library."""

    def __init__(self, path, T, drop=(), lines='contract'):
        """drop: names of REP conjuncts to leave out (used only by `necessity()`)"""
        self.T, self.path = T, path
        n, m, nb = self.n, self.m, self.nb = Int('len(objects)'), Int('len(properties)'), Int('len(bools)')
        Obj, Prp = self.Obj, self.Prp = Function('objects', I, T.Txt), Function('properties', I, T.Txt)
        self.cell, ncols = Function('cell', I, I, B), Function('len(row)', I, I)
        self.ncols = ncols
        self.indent = Int('indent')
        q = Int('q')
        path.assume(And(n >= 0, m >= 0, nb >= 0, ForAll([q], ncols(q) >= 0, patterns=[ncols(q)])))

        # ---- REP (hypotheses)
        def label(x, parts):
            return And(*[getattr(T, p)(x) for p in parts])
        obj_parts, prp_parts = LABEL_PARTS, LABEL_PARTS + ('ne',)
        for weaker in drop:                       # necessity(): one part of `label` left out
            if weaker.startswith('label-without:'):
                part = weaker.split(':')[1]
                obj_parts = tuple(p for p in obj_parts if p != part)
                prp_parts = tuple(p for p in prp_parts if p != part)
        rep = {'one-row-per-object': nb == n, 'at-least-one-object': n >= 1, 'at-least-one-property': m >= 1,
               'one-cell-per-property': ForAll([q], Implies(And(0 <= q, q < nb), ncols(q) == m), patterns=[ncols(q)]),
               'object-labels-representable': ForAll([q], Implies(And(0 <= q, q < n), label(Obj(q), obj_parts)), patterns=[Obj(q)]),
               'property-labels-representable': ForAll([q], Implies(And(0 <= q, q < m), label(Prp(q), prp_parts)), patterns=[Prp(q)])}
        self.rep_names = sorted(rep)
        for name in self.rep_names:
            if name not in drop:
                path.assume(rep[name])

        # ---- [source] the constants of the class Table
        kc = self.consts = class_constants(TAB, 'Table', ('dumps_rstrip', 'newline'))
        path.oblige('source/Table-is-a-Format-with-loadf-load_file-and-dumpf-dump_file', 'source',
                    BoolVal(bool(kc['subclass_of_Format'] and kc.get('loadf') == 'load_file' and kc.get('dumpf') == 'dump_file')))
        path.oblige('source/dumps_rstrip-is-true-or-false', 'source', BoolVal(kc['dumps_rstrip'] in (True, False, None)))
        path.oblige('source/newline-is-None', 'source', BoolVal(kc['newline'] is None))
        self.rstrips = bool(kc['dumps_rstrip']) if kc['dumps_rstrip'] is not KeyError else True
        self.bar, self.e, self.nl = T.lit('|'), T.lit(''), T.lit('\n')
        # [contract] tools.max_len(objects): an int >= 0 (post/at-least-the-minimum, minimum = 0)
        self.ML = Int('max_len(objects)')
        path.assume(self.ML >= 0)
        if lines == 'contract':
            self.contract_lines()

    # ---- [contract] formats.table.dump_file (contracts/formats_lines.py), read in the TEXT theory
    def contract_lines(self):
        """header tmpl % (('',) + properties), then tmpl % ((o,) + cells) per (object, row), 'X' / '' per cell, tmpl = ' ' * indent +
        '|'.join(f'%-{w:d}s' for w in wd) + '|', wd = [tools.max_len(objects)] + [len(p) for p in properties]"""
        T, path, n, m, nb = self.T, self.path, self.n, self.m, self.nb
        Obj, Prp, cell, ncols, ML = self.Obj, self.Prp, self.cell, self.ncols, self.ML
        path.oblige('contract/dump_file-requires-a-row-per-object', 'lemma', nb == n)
        X, E = T.lit('X'), T.lit('')
        self.describe_lines(self.indent, 1 + m, lambda q: If(q == 0, ML, T.tlen(Prp(q - 1))),
                            1 + m, lambda q: If(q == 0, E, Prp(q - 1)),
                            n, lambda r: 1 + ncols(r), lambda r, q: If(q == 0, Obj(r), If(cell(r, q - 1), X, E)), left=True)

    def describe_lines(self, k, ncolumns, width, nheader, header_arg, nrows, nrow_args, row_arg, left):
        """The written lines from their description: every line is  tmpl % args,  tmpl = ' ' * k + '|'.join(column templates) + '|'  with
        `ncolumns` columns '%-{width(q):d}s' (left) or '%{width(q):d}s' (not left); the header has the `nheader` arguments header_arg(q), line
        1 + r (r < nrows) the nrow_args(r) arguments row_arg(r, q).  [lean + library] L_percent (pct_line): what % makes of them (as many arguments as columns,
        else TypeError: an obligation); [lean] L_pad: every padded cell; then `set_lines`."""
        T, path = self.T, self.path
        q, c = Int('q'), Int('c')
        W = self.W = Const('column-widths', T.Ints)
        path.assume(And(T.ilen(W) == ncolumns, ForAll([q], Implies(And(0 <= q, q < ncolumns), T.iat(W, q) == width(q)), patterns=[T.iat(W, q)])))
        HA, RA = Const('header-arguments', T.Lines), Function('row-arguments', I, T.Lines)
        path.assume(And(T.llen(HA) == nheader, ForAll([q], Implies(And(0 <= q, q < nheader), T.lat(HA, q) == header_arg(q)), patterns=[T.lat(HA, q)])))
        path.assume(ForAll([q], Implies(And(0 <= q, q < nrows), T.llen(RA(q)) == nrow_args(q)), patterns=[RA(q)]))
        path.assume(ForAll([q, c], Implies(And(0 <= q, q < nrows, 0 <= c, c < nrow_args(q)), T.lat(RA(q), c) == row_arg(q, c)),
                           patterns=[T.lat(RA(q), c)]))
        All = Const('written-lines', T.Lines)
        path.assume(And(T.llen(All) == 1 + nrows, T.lat(All, 0) == T.pct_line(k, W, HA, left),
                        ForAll([q], Implies(And(1 <= q, q <= nrows), T.lat(All, q) == T.pct_line(k, W, RA(q - 1), left)), patterns=[T.lat(All, q)])))
        for _, f in T.literal_facts():            # the predicates evaluated on the literals '', '|', '\n' and the cell symbols
            path.assume(f)
        use(path, 'percent(header)', texts.L_percent(T, k, W, HA, left))
        use_indexed(path, 'percent(row)', 0, nrows, lambda t: texts.L_percent(T, k, W, RA(t), left), lambda q_: RA(q_))
        use_indexed(path, 'pad(header-cell)', 0, nheader, lambda t: texts.L_pad(T, T.lat(HA, t), T.iat(W, t), left), lambda q_: T.lat(HA, q_))
        use_indexed2(path, 'pad(row-cell)', 0, nrows, lambda t: 0, nrow_args, lambda t, c_: texts.L_pad(T, T.lat(RA(t), c_), T.iat(W, c_), left),
                     lambda q_, c_: T.lat(RA(q_), c_))
        pad = T.padded if left else T.padded_r
        self.set_lines(k, All, lambda t: pad(If(t == 0, HA, RA(t - 1)), W), 1 + nrows)

    def set_lines(self, k, All, Cells, nlines):
        """[lean] every line: its characters, what load_file's string calls make of it; the text Table.dumps returns; the file lines"""
        T, path = self.T, self.path
        self.All, self.Cells = All, Cells
        use_indexed(path, 'line', 0, nlines, lambda t: texts.L_table_line(T, k, Cells(t)), lambda q_: T.lat(All, q_))
        use_indexed(path, 'line-characters', 0, nlines, lambda t: texts.L_line_chars(T, k, Cells(t)), lambda q_: T.lat(All, q_))
        # ---- [library] print / StringIO: the text; [contract] Format.dumps: right-stripped iff dumps_rstrip; [lean] the effect of rstrip
        use(path, 'written', texts.L_written(T, All))
        if self.rstrips:
            use(path, 'rstrip', texts.L_rstrip_text(T, All))
            self.text = T.rstrip(T.written(All))
        else:
            self.text = T.written(All)
        # ---- [contract] Format.loads: load_file(io.StringIO(text)); [library + lean] the lines the file object yields
        use(path, 'file-lines', texts.L_readlines(T, All))
        self.FileLines = T.readlines(self.text)


# =====================================================================================================================
# lemma.table.roundtrip: over the contracts

def load_file_contract(T, file_lines, nfile):
    """The contract of unit formats.table.load_file (contracts/formats_lines.py), its opaque string operations read as the functions of
    the TEXT theory (partition('#')[0] = before_hash, .strip() = strip, .strip('|') = strip_bar, .split('|') = split_bar, partition('|')[::2] =
    (before_bar, after_bar), bool(text) = text != ''), with filter(None, seq) read as "seq itself when every item is truthy":
      REQUIRES  every stripped line is non-empty (else it is dropped and the line numbers shift); at least two lines (IndexError / ValueError
                otherwise)
      ENSURES   properties = the stripped cells of line 0 without its outer bars; objects[j] = the stripped text before the first bar of
                line j + 1; bools[j][c] = (cell c of the bar-stripped text behind the first bar of line j + 1 is not blank)
    -> (requires, kept, header cells, flags cells)"""
    def kept(t):
        return T.strip(T.before_hash(T.lat(file_lines, t)))
    requires = [('no-line-is-blank-after-stripping', lambda t_: Implies(And(0 <= t_, t_ < nfile), T.ne(kept(t_)))),
                ('a-header-line-and-an-object-line', lambda t_: nfile >= 2)]
    head = T.split_bar(T.strip_bar(kept(0)))

    def flags(j):
        return T.split_bar(T.strip_bar(T.after_bar(kept(j + 1))))
    return requires, kept, head, flags


def _roundtrip_lemma(drop=()):
    def make():
        T = texts.Z3TT()

        def prove(path):
            w = WrittenTable(path, T, drop=drop)
            prove_read_back(path, T, w)
        return _axioms(T), prove
    return make


def prove_read_back(path, T, w):
    """[contract] load_file on the lines of the written text: its requires are obligations, its ensures give the result; [z3] the goals"""
    n, m = w.n, w.m
    nfile = T.llen(w.FileLines)
    requires, kept, head, flags = load_file_contract(T, w.FileLines, nfile)
    t = path.fresh_int('t')
    for name, f in requires:
        path.oblige('load_file-requires/' + name, 'lemma', f(t))
    R_objs_len, R_props_len, R_bools_len = Int('result.objects.len'), Int('result.properties.len'), Int('result.bools.len')
    R_obj, R_prop = Function('result.objects', I, T.Txt), Function('result.properties', I, T.Txt)
    R_rowlen, R_cell = Function('result.bools.rowlen', I, I), Function('result.bools.cell', I, I, B)
    q, q2 = Int('q'), Int('q2')
    path.assume(And(R_props_len == T.llen(head),
                    ForAll([q], Implies(And(0 <= q, q < T.llen(head)), R_prop(q) == T.strip(T.lat(head, q))), patterns=[R_prop(q)])))
    path.assume(And(R_objs_len == nfile - 1,
                    ForAll([q], Implies(And(0 <= q, q < nfile - 1), R_obj(q) == T.strip(T.before_bar(kept(q + 1)))), patterns=[R_obj(q)])))
    path.assume(And(R_bools_len == nfile - 1,
                    ForAll([q], Implies(And(0 <= q, q < nfile - 1), R_rowlen(q) == T.llen(flags(q))), patterns=[R_rowlen(q)]),
                    ForAll([q, q2], Implies(And(0 <= q, q < nfile - 1, 0 <= q2, q2 < T.llen(flags(q))),
                                            R_cell(q, q2) == (T.tlen(T.strip(T.lat(flags(q), q2))) > 0)), patterns=[R_cell(q, q2)])))
    j, c = path.fresh_int('j'), path.fresh_int('c')
    path.oblige('objects-as-given', 'lemma', And(R_objs_len == n, Implies(And(0 <= j, j < n), R_obj(j) == w.Obj(j))))
    path.oblige('properties-as-given', 'lemma', And(R_props_len == m, Implies(And(0 <= j, j < m), R_prop(j) == w.Prp(j))))
    path.oblige('bools-shape-as-given', 'lemma', And(R_bools_len == n, Implies(And(0 <= j, j < n), R_rowlen(j) == m)))
    path.oblige('bools-as-given', 'lemma', Implies(And(0 <= j, j < n, 0 <= c, c < m), R_cell(j, c) == w.cell(j, c)))


_LIBRARY = ['ASSUMED library contract: CPython str.strip() / .lstrip() / .rstrip() / .strip("|") / .partition(c) / .split("|") / "|".join / .ljust / " " * k / '
            'str.isspace compute the functions defined in lemmas/Text.lean (validated on an enumerated scope: pyvc/texts.py selftest(), selftest_lean(); '
            'not proved)',
            'ASSUMED library contract (validated by selftest(), selftest_lean()): the % operator of str computes pctFormat (lemmas/Text.lean) on templates '
            'made of literal text and conversions %-<digits>s / %<digits>s; with Lean pct_line (schema L_percent): (" " * k + "|".join(f"%-{w:d}s" for w in W) '
            '+ "|") % args is " " * k + "|".join(a.ljust(w)) + "|" for one text per column and natural widths (without the "-" flags: rjust)',
            'ASSUMED library contract: print(text, file=buf) appends text + "\\n" to an io.StringIO(newline=None) unless "\\r" is written; getvalue() is the '
            'concatenation (L_written); iterating io.StringIO(text) yields the lines of text cut behind every "\\n", line ends kept (L_readlines)',
            'Lean (lemmas/Text.lean, premises obliged here): pct_line, table_line, bar_cells, strip_sandwich, strip_lstrip, table_line_chars, strip_ljust, mem_ljust, '
            'ljust_ne_nil, ljust_all, rstrip_unlines, linesKeep_intercalate, linesKeep_unlines; SMT <-> Lean: lemmas/README.md',
            'the predicates ne / nonl / nocr / nows / lead / trail / nobar / nohash / nosp / allws on the literals of the source are evaluated with CPython',
            'REP: len(bools) == len(objects) >= 1, every row has len(properties) >= 1 cells, no label contains "\\n", "\\r", "|", "#" or starts / ends with '
            'whitespace, property labels are non-empty (object labels may be empty); any int indent (module docstring, necessity(), bounded/table_rep.py)']

register(Unit('lemma.table.roundtrip', None, None, _roundtrip_lemma(),
              assumptions=['contracts of the proved units formats.table.dump_file (which template, which argument tuple per line), tools.max_len (an int >= 0), '
                           'formats.Format.dumps / loads (StringIO plumbing, rstrip iff dumps_rstrip), formats.table.load_file (which piece of which line '
                           'becomes which component; filter(None, ...) read as: nothing is dropped when every stripped line is non-empty -- an obligation here)',
                           'constants read from the source and checked: Table.dumps_rstrip, Format.newline is None, Table.loadf / dumpf are load_file / dump_file'] + _LIBRARY))


# =====================================================================================================================
# formats.table.load_file.written: the real load_file on the written text

_STRIPS = {('strip', None): 'strip', ('lstrip', None): 'lstrip', ('rstrip', None): 'rstrip',
           ('strip', '|'): 'strip_bar', ('lstrip', '|'): 'lstrip_bar', ('rstrip', '|'): 'rstrip_bar'}
_PARTS = {'#': ('before_hash', 'sep_hash', 'after_hash'), '|': ('before_bar', 'sep_bar', 'after_bar')}


def txt(T, term, name=None):
    """a python str known as the term `term` of the TEXT theory; its methods are the functions of the theory (a call the theory has no
    function for is rejected: Unsupported)"""
    o = ObjV('str', {}, name=name or str(term))
    o.ident = term
    o.truth_fn = lambda: T.tlen(term) > 0
    o.fields['__len__'] = FuncV('str.__len__', lambda p, a, k: IntV(T.tlen(term)))

    def stripper(which):
        def f(p, a, k):
            if k or len(a) > 2 or (len(a) == 2 and not (isinstance(a[1], StrV) and a[1].value is not None)):
                raise Unsupported('str.%s arguments' % which)
            fn = _STRIPS.get((which, a[1].value if len(a) == 2 else None))
            if fn is None:
                raise Unsupported('no function of the TEXT theory for str.%s(%r)' % (which, a[1].value))
            return txt(T, getattr(T, fn)(term))
        return f

    def partition(p, a, k):
        if k or len(a) != 2 or not (isinstance(a[1], StrV) and a[1].value in _PARTS):
            raise Unsupported('no function of the TEXT theory for str.partition%r' % (a[1:],))
        return TupleV([txt(T, getattr(T, fn)(term)) for fn in _PARTS[a[1].value]])

    def split(p, a, k):
        if k or len(a) != 2 or not (isinstance(a[1], StrV) and a[1].value == '|'):
            raise Unsupported('no function of the TEXT theory for str.split%r' % (a[1:],))
        L = T.split_bar(term)
        r = SeqV(lambda t: txt(T, T.lat(L, t)), T.llen(L), 'split(%s)' % term)
        r.lines = L
        return r
    for which in ('strip', 'lstrip', 'rstrip'):
        o.fields[which] = meth(stripper(which), 'str.' + which)
    o.fields['partition'] = meth(partition, 'str.partition')
    o.fields['split'] = meth(split, 'str.split')
    return o


def filter_none_all(p, args, kw):
    """filter(None, seq): [library] the subsequence of the truthy items, in order.  Used here only where EVERY item is truthy (an
    obligation): then nothing is dropped and the result is seq itself."""
    f, it = args
    if kw or not isinstance(f, NoneV) or not isinstance(it, (IterV, SeqV)):
        raise Unsupported('filter(%r, %r)' % (f, it))
    t = p.fresh_int('t')
    p.oblige('filter(None, lines)/no-item-is-falsy (nothing is dropped, the line numbers do not shift)', 'call',
             Implies(And(0 <= t, t < it.length), p.truth(it.at(t))))
    return SeqV(it.at, it.length, 'filter(None, %s)' % it.name)


def check_result(path, T, w, calls, outcome):
    """the value returned is ContextArgs(objects, properties, bools) with exactly the given labels and cells"""
    from contracts import formats_lines as fl
    n, m = w.n, w.m
    if not fl._no_exception(path, outcome):
        return
    ok = len(calls) == 1 and outcome[1] is calls[0][2] and len(calls[0][0]) == 3 and not calls[0][1]
    path.oblige('post/returns-ContextArgs-of-three', 'post', BoolVal(ok))
    if not ok:
        return
    objects, properties, bools = calls[0][0]
    given_objects = SeqV(lambda t: txt(T, w.Obj(t)), n, 'objects')
    given_properties = SeqV(lambda t: txt(T, w.Prp(t)), m, 'properties')
    path.oblige('post/objects-as-given', 'post', fl.same(path, objects, given_objects) if fl.is_seq(objects) else BoolVal(False))
    path.oblige('post/properties-as-given', 'post', fl.same(path, properties, given_properties) if fl.is_seq(properties) else BoolVal(False))
    if not fl.is_seq(bools):
        path.oblige('post/bools-as-given', 'post', BoolVal(False))
        return
    path.oblige('post/bools-has-a-row-per-object', 'post', fl.seq_len(bools) == n)
    r, c = path.fresh_int('r'), path.fresh_int('c')

    def row_checks():
        row = fl.seq_at(bools, r)
        if not fl.is_seq(row):
            path.oblige('post/bools-rows-are-sequences', 'post', BoolVal(False))
            return
        path.oblige('post/bools-row-has-a-cell-per-property', 'post', fl.seq_len(row) == m)

        def cell_checks():
            v = fl.seq_at(row, c)
            path.oblige('post/bools-cell-as-given', 'post', v.t == w.cell(r, c) if isinstance(v, BoolV) else BoolVal(False))
        under(path, And(0 <= c, c < m), cell_checks)
    under(path, And(0 <= r, r < n), row_checks)


def _load_file_written_unit():
    def make():
        from contracts import formats_lines as fl
        T = texts.Z3TT()

        def harness(path):
            w = WrittenTable(path, T)
            calls = []
            FL = w.FileLines
            file = ObjV('file', {'__iter__': FuncV('file.__iter__', lambda p, a, k: IterV(lambda t: txt(T, T.lat(FL, t)), T.llen(FL), 'file'))},
                        name='file')

            def finish(path, env_, outcome):
                check_result(path, T, w, calls, outcome)

            def rows_obj(seq):
                o = ObjV('list', {}, name='table')
                o.rows = seq
                return o
            loops = fl.base_loops({'filter': FuncV('filter', filter_none_all), 'ContextArgs': fl._context_args(calls)})
            loops['closed_form'] = {'ListComp#1': fl.default_comprehension('ListComp#1', rows_obj)}
            loops['star_opaque'] = True
            return {'file': file}, loops, finish
        return _axioms(T), harness
    return make


register(Unit('formats.table.load_file.written', TAB, 'load_file', _load_file_written_unit(),
              assumptions=['contracts of the proved units formats.table.dump_file, tools.max_len, formats.Format.dumps / loads: the file object handed to load_file '
                           'yields the lines of the text Table.dumps makes of the header line and one line per object',
                           'constants read from the source and checked: Table.dumps_rstrip, Format.newline is None, Table.loadf / dumpf are load_file / dump_file',
                           'filter(None, seq) is the subsequence of the truthy items in order: seq itself when every item is truthy (an obligation); list() keeps '
                           'items and order; zip(*rows) of a non-empty list of pairs gives (firsts, seconds) in order; a tuple[::2] of three is (first, third)'] + _LIBRARY,
              linkage=[('concepts.formats.Format["table"].loadf', None)]))


# =====================================================================================================================
# formats.table.dump_file.chars: the real dump_file, its lines read in the TEXT theory, read back by the load_file contract

def cell_symbols():
    """[source] the two cell texts of dump_file, read from the ONE expression of its body that chooses between two literal texts by a
    truth value: the conditional `<text> if b else <text>`, or the pair indexed by a bool `(<false text>, <true text>)[bool(b)]`
    (checked by the run: the loop body must print exactly the line built from them, so a wrong reading can only lose obligations).
    -> (text of a true cell, text of a false cell)"""
    x = extract.get_function(TAB, 'dump_file')
    # the text of dump_file and of the module-level helpers it calls (the engine executes them in place: an extracted row generator)
    _, tree = extract.parse_file(TAB)
    helpers = {st.name: st for st in tree.body if isinstance(st, ast.FunctionDef)}
    nodes, todo = [], [x.node]
    while todo:
        fn = todo.pop()
        if any(fn is n_ for n_ in nodes):
            continue
        nodes.append(fn)
        for nd in ast.walk(fn):
            if isinstance(nd, ast.Call) and isinstance(nd.func, ast.Name) and nd.func.id in helpers and nd.func.id != 'dump_file':
                todo.append(helpers[nd.func.id])

    def text_const(nd):
        return isinstance(nd, ast.Constant) and isinstance(nd.value, str)
    found = []
    for nd in (n_ for fn in nodes for n_ in ast.walk(fn)):
        if isinstance(nd, ast.IfExp) and text_const(nd.body) and text_const(nd.orelse):
            found.append((nd.body.value, nd.orelse.value))
        elif isinstance(nd, ast.Subscript) and isinstance(nd.value, ast.Tuple) and len(nd.value.elts) == 2 \
                and all(text_const(e) for e in nd.value.elts) and not isinstance(nd.slice, ast.Slice):
            found.append((nd.value.elts[1].value, nd.value.elts[0].value))
    if len(found) != 1:
        raise Unsupported('dump_file: expected one expression choosing between two cell texts, found %d' % len(found))
    return found[0]


def read_pct(val):
    """(template, arguments) of the engine's record of `template % arguments`"""
    ps = val.parts if isinstance(val, StrV) and val.value is None else None
    if not ps or len(ps) != 2 or ps[0][0] != 'fmt' or ps[1][0] != 'fmt' or ps[0][3] is not None or ps[1][3] != '%':
        raise Unsupported('the printed text is not `template %% arguments`: %r' % (val,))
    return ps[0][1], ps[1][1]


def read_template(path, tmpl):
    """The template the code built, which must be  [' ' * k +] '|'.join(<'%-{w:d}s' or '%{w:d}s' for every column>) + '|'  (the family the lemma
    L_percent speaks about; anything else is rejected) -> (k, number of columns, q -> width of column q, left-justified?)"""
    from contracts import formats_lines as fl
    from z3 import IntVal
    ps = fl.parts_of(tmpl)

    def op(piece, kind):
        return piece[0] == 'fmt' and isinstance(piece[1], fl.Op) and piece[1].kind == kind and piece[3] is None
    k = IntVal(0)
    if ps and op(ps[0], 'repeat'):
        ch, cnt = ps[0][1].args
        if not (isinstance(ch, StrV) and ch.value == ' ' and isinstance(cnt, IntV)):
            raise Unsupported('the indentation is not blanks: %r * %r' % (ch, cnt))
        k, ps = cnt.t, ps[1:]
    if len(ps) != 2 or not op(ps[0], 'join') or ps[1] != ('lit', '|'):
        raise Unsupported('the template is not [blanks +] "|".join(columns) + "|": %r' % (ps,))
    sep, cols = ps[0][1].args
    if not (isinstance(sep, StrV) and sep.value == '|' and fl.is_seq(cols)):
        raise Unsupported('the columns are not joined with "|"')
    c = path.fresh_int('column')
    col = fl.parts_of(fl.seq_at(cols, c))
    if not (len(col) == 3 and col[0] in (('lit', '%-'), ('lit', '%')) and col[2] == ('lit', 's') and col[1][0] == 'fmt'
            and isinstance(col[1][1], IntV) and col[1][3] == 'd'):
        raise Unsupported('a column template is not "%%-{w:d}s" / "%%{w:d}s": %r' % (col,))
    left = col[0] == ('lit', '%-')

    def width(q):
        return fl.parts_of(fl.seq_at(cols, q))[1][1].t
    return k, fl.seq_len(cols), width, left


def term_of(T, v):
    """the TEXT term of a text value: a literal, a text of the theory, or a conditional of those"""
    from pyvc.engine import IteV
    if isinstance(v, StrV) and v.value is not None:
        return T.lit(v.value)
    if isinstance(v, ObjV) and v.cls == 'str' and getattr(v, 'ident', None) is not None:
        return v.ident
    if isinstance(v, IteV):
        return If(v.c, term_of(T, v.a), term_of(T, v.b))
    raise Unsupported('no TEXT term for the argument %r' % (v,))


def _dump_file_chars_unit():
    def make():
        from contracts import formats_lines as fl
        from pyvc.engine import IteV
        T = texts.Z3TT()

        def harness(path):
            w = WrittenTable(path, T, lines='observed')
            n, m, nb = w.n, w.m, w.nb
            objects = SeqV(lambda t: txt(T, w.Obj(t)), n, 'objects')
            properties = SeqV(lambda t: txt(T, w.Prp(t)), m, 'properties')
            bools = SeqV(lambda r: SeqV(lambda c: BoolV(w.cell(r, c)), w.ncols(r), 'bools[%s]' % r), nb, 'bools')
            file = ObjV('Arg', {}, name='file')
            trace = fl.Trace()
            g = fl.printer(trace, file)

            def max_len(p, a, k):
                if k or len(a) != 1 or a[0] is not objects:
                    raise Unsupported('tools.max_len(%r): the contract at hand is for the object labels' % (a,))
                return IntV(w.ML)
            g['tools'] = ObjV('module', {'max_len': FuncV('tools.max_len', max_len)}, name='tools')
            sym_t, sym_f = cell_symbols()

            def header_template():
                if len(trace.segs) < 1 or trace.segs[0][0] != 'one':
                    raise Unsupported('no header line is printed in front of the loop')
                return read_pct(trace.segs[0][1])[0]

            def row(kk):
                # the line of object kk as the format description has it, over the template OBJECT the code printed the header with
                cells = IterV(lambda c: IteV(w.cell(kk, c), StrV(sym_t), StrV(sym_f)), w.ncols(kk), 'cells[%s]' % kk)
                return fl.pct(header_template(), fl.concat(TupleV([txt(T, w.Obj(kk))]), cells))
            spec = fl.emit_loop(trace, lambda kk: [row(kk)])

            def finish(path, env_, outcome):
                if not fl._no_exception(path, outcome):
                    return
                shape = len(trace.segs) == 2 and trace.segs[0][0] == 'one' and trace.segs[1][0] == 'many'
                path.oblige('post/a-header-line-then-one-line-per-object', 'post', BoolVal(shape))
                path.oblige('post/returns-None', 'post', BoolVal(isinstance(outcome[1], NoneV)))
                if not shape:
                    return
                tmpl, hargs = read_pct(trace.segs[0][1])
                if not fl.is_seq(hargs):
                    raise Unsupported('the header arguments are not a tuple')
                k, ncolumns, width, left = read_template(path, tmpl)
                nrows = trace.segs[1][1]
                path.oblige('post/one-line-per-object', 'post', nrows == n)
                w.describe_lines(k, ncolumns, width, fl.seq_len(hargs), lambda q: term_of(T, fl.seq_at(hargs, q)),
                                 nrows, lambda r: 1 + w.ncols(r), lambda r, q: term_of(T, fl.seq_at(read_pct(row(r))[1], q)), left)
                prove_read_back(path, T, w)
            loops = fl.base_loops(g)
            loops[0] = spec
            loops['closed_form'] = {'GeneratorExp#0': fl.map_closed_form}
            env = {'file': file, 'objects': objects, 'properties': properties, 'bools': bools, 'indent': IntV(w.indent)}
            return env, loops, finish
        return _axioms(T), harness
    return make


register(Unit('formats.table.dump_file.chars', TAB, 'dump_file', _dump_file_chars_unit(),
              assumptions=['contracts of the proved units tools.max_len (an int >= 0), formats.Format.dumps / loads (StringIO plumbing, rstrip iff dumps_rstrip), '
                           'formats.table.load_file (as in lemma.table.roundtrip: its requires are obligations here)',
                           'the template the code builds must be [" " * k +] "|".join(f"%-{w:d}s" or f"%{w:d}s" per column) + "|" (the family L_percent speaks about; '
                           'anything else is rejected); the two cell texts are read from the one conditional expression of dump_file and CHECKED by the loop '
                           'invariant (iteration k prints exactly the line built from them)',
                           'list.extend(iterable) appends its items in order; tuple + tuple concatenates; zip pairs in order; print(text, file=f) writes text + line '
                           'end to f; functools.partial(f, **k)(*a) = f(*a, **k)',
                           'constants read from the source and checked: Table.dumps_rstrip, Format.newline is None, Table.loadf / dumpf are load_file / dump_file'] + _LIBRARY,
              linkage=[('concepts.formats.Format["table"].dumpf', None)]))


# =====================================================================================================================
# FIMI: rows of decimal index numbers

class WrittenFimi:
    """Rows R of index numbers, the text the csv writer makes of them in the FIMI dialect, and the rows the csv reader makes of that text.
    `cells=True`: R is not given but DESCRIBED as iter_fimi_rows describes it (row r = the ascending indexes of the true cells of row r of
    `bools`), the text is what Fimi.dumps returns."""

    def __init__(self, path, T, cells=False, drop=()):
        self.T = T
        R = self.R = Const('index-rows', T.Rows)
        N = self.N = T.idx_rows(R)
        q, c, c2 = Int('q'), Int('c'), Int('c2')
        path.assume(And(N >= 0, ForAll([q], T.idx_len(R, q) >= 0, patterns=[T.idx_len(R, q)])))
        # ---- [source] the dialect and the class constants
        dialect, base_ok = fimi_dialect_constants()
        path.oblige('source/FimiDialect-is-a-csv-Dialect-with-the-assumed-parameters', 'source',
                    BoolVal(bool(base_ok and dialect == texts.FIMI_DIALECT)))
        kc = class_constants(FIMI, 'Fimi', ('encoding', 'newline', 'dumps_rstrip'))
        path.oblige('source/Fimi-encoding-ascii-newline-empty-no-rstrip', 'source',
                    BoolVal(bool(kc['subclass_of_Format'] and kc['encoding'] == 'ascii' and kc['newline'] == '' and kc['dumps_rstrip'] in (False, None))))
        if cells:
            # ---- [contract] formats.fimi.iter_fimi_rows: row r of R = [i for i, value in enumerate(bools[r]) if value]
            ncols, cell = self.ncols, self.cell = Function('len(row)', I, I), Function('cell', I, I, B)
            path.assume(ForAll([q], ncols(q) >= 0, patterns=[ncols(q)]))
            path.assume(ForAll([q, c], Implies(And(0 <= q, q < N, 0 <= c, c < T.idx_len(R, q)),
                                               And(0 <= T.idx_at(R, q, c), T.idx_at(R, q, c) < ncols(q), cell(q, T.idx_at(R, q, c)))),
                               patterns=[T.idx_at(R, q, c)]))
            path.assume(ForAll([q, c, c2], Implies(And(0 <= q, q < N, 0 <= c, c < c2, c2 < T.idx_len(R, q)), T.idx_at(R, q, c) < T.idx_at(R, q, c2)),
                               patterns=[MultiPattern(T.idx_at(R, q, c), T.idx_at(R, q, c2))]))
        elif 'index-numbers-are-natural' not in drop:
            # ---- REP: the numbers are natural (the member indexes bitsets' iter_set() yields)
            path.assume(ForAll([q, c], Implies(And(0 <= q, q < N, 0 <= c, c < T.idx_len(R, q)), T.idx_at(R, q, c) >= 0), patterns=[T.idx_at(R, q, c)]))
        for lit_ in ('', ' ', '\n'):
            T.lit(lit_)
        for _, f in T.literal_facts():
            path.assume(f)
        # ---- [library] the csv writer (contracts of write_concepts_dat / fimi.dump_file + tools.write_csv_file: writer.writerows(rows), no header)
        use(path, 'csv-writer', texts.L_csv_written(T, R))
        self.text = T.csv_text(R)
        L = self.L = T.fimi_lines(R)
        zero, length = (lambda t: 0), (lambda t: T.idx_len(R, t))
        # ---- [lean] every number text, every line; [library + lean] the rows the reader makes of the text
        use_indexed2(path, 'dec', 0, N, zero, length, lambda t, c_: texts.L_dec(T, T.idx_at(R, t, c_)), lambda q_, c_: T.lat(T.fimi_nums(R, q_), c_))
        use_indexed2(path, 'digits', 0, N, zero, length, lambda t, c_: texts.L_dec_sp(T, T.idx_at(R, t, c_)), lambda q_, c_: T.lat(T.fimi_nums(R, q_), c_))
        use_indexed(path, 'fields', 0, N, lambda t: texts.L_csv_fields(T, T.fimi_nums(R, t)), lambda q_: T.lat(L, q_))
        use(path, 'csv-reader', texts.L_csv_rows(T, L))

    def read_rows(self):
        """[library] the rows csv.reader yields for the text: (count, t -> fields of row t)"""
        T = self.T
        return T.csv_nrows(self.text), (lambda t: T.csv_row(self.text, t))


def _fimi_lemma(cells=False, drop=()):
    def make():
        T = texts.Z3TT()

        def prove(path):
            w = WrittenFimi(path, T, cells=cells, drop=drop)
            R, N = w.R, w.N
            nrows, row = w.read_rows()
            # [contract] read_concepts_dat: for values in rows: yield tuple(map(int, values)); int() is only claimed to compute int_of (and
            # not to raise ValueError) on the decimal text of a natural number
            t, c = path.fresh_int('t'), path.fresh_int('c')
            field = T.lat(row(t), c)
            path.oblige('read-requires/every-field-is-the-decimal-text-of-a-natural (no ValueError from int)', 'lemma',
                        Implies(And(0 <= t, t < nrows, 0 <= c, c < T.llen(row(t))), And(T.int_of(field) >= 0, field == T.dec(T.int_of(field)))))
            path.oblige('one-tuple-per-row-written', 'lemma', nrows == N)
            path.oblige('tuple-lengths-as-written (an empty row comes back as the empty tuple)', 'lemma',
                        Implies(And(0 <= t, t < N), T.llen(row(t)) == T.idx_len(R, t)))
            path.oblige('numbers-as-written', 'lemma', Implies(And(0 <= t, t < N, 0 <= c, c < T.idx_len(R, t)), T.int_of(field) == T.idx_at(R, t, c)))
            if cells:
                # the tuple of row t lists exactly the true cells of row t (the contract of iter_fimi_rows says so of R: restated for the result)
                path.oblige('indexes-of-true-cells-ascending', 'lemma',
                            Implies(And(0 <= t, t < N, 0 <= c, c < T.llen(row(t))),
                                    And(0 <= T.int_of(field), T.int_of(field) < w.ncols(t), w.cell(t, T.int_of(field)))))
        return _axioms(T), prove
    return make


_FIMI_LIBRARY = ['ASSUMED library contract (schema L_csv_written, validated by selftest()): csv.writer(file, dialect=FimiDialect).writerows(rows) for rows of natural '
                 'numbers writes str() of the numbers joined by single blanks and "\\n" per row (an empty row: an empty line); str(i) == f"{i:d}"',
                 'ASSUMED library contract (schema L_csv_rows, validated by selftest() on all texts over digits, blank, line end): csv.reader(file, '
                 'dialect=FimiDialect) over a file opened with newline="" yields, line by line, the fields between the blanks -- NO field for an empty line',
                 'ASSUMED library contract: a file opened with encoding="ascii", newline="" stores and returns texts of digits, blanks and "\\n" unchanged',
                 'Lean (lemmas/Text.lean, premises obliged here): intOf_dec, dec_ne_nil, dec_not_ws, dec_no_sp, nows_facts, csvFields_intercalate, '
                 'not_mem_intercalate, csvRows_unlines, linesKeep_unlines; SMT <-> Lean: lemmas/README.md',
                 'constants read from the source and checked: the class body of FimiDialect (delimiter " ", no quoting, lineterminator "\\n", strict), '
                 'Fimi.encoding "ascii", Fimi.newline "", Fimi.dumps_rstrip False']

register(Unit('lemma.fimi.roundtrip', None, None, _fimi_lemma(),
              assumptions=['contracts of the proved units formats.fimi.write_concepts_dat (one row of member indexes per concept into tools.write_csv_file in the FIMI '
                           'dialect, file opened with Fimi.encoding / Fimi.newline), tools.write_csv_file (writer.writerows(rows), no header), '
                           'formats.fimi.read_concepts_dat (tuple(map(int, values)) per row of tools.csv_iterrows), tools.csv_iterrows (the rows of csv.reader)',
                           'REP: the index numbers are natural numbers (bitsets iter_set(): member indexes)'] + _FIMI_LIBRARY))

register(Unit('lemma.fimi.context_rows', None, None, _fimi_lemma(cells=True),
              assumptions=['contracts of the proved units formats.fimi.iter_fimi_rows (row r = the ascending indexes of the true cells of row r), formats.fimi.dump_file '
                           '(those rows into tools.write_csv_file in the FIMI dialect), tools.write_csv_file, formats.Format.dumps (io.StringIO(newline=""), no rstrip); '
                           'read back by the reader of read_concepts_dat (there is no Fimi.loadf)'] + _FIMI_LIBRARY))


def _read_concepts_dat_written_unit():
    def make():
        from contracts import cover_io as cio
        from pyvc.engine import LoopSpec
        T = texts.Z3TT()

        def harness(path):
            w = WrittenFimi(path, T)
            R, N = w.R, w.N
            nrows, row = w.read_rows()
            rec = cio.Rec()
            Dialect = cio.arg('FimiDialect')
            def field(r, c):
                o = txt(T, T.lat(row(r), c))
                o.exists = And(0 <= r, r < nrows, 0 <= c, c < T.llen(row(r)))       # the item is there for these indexes only
                return o
            rows = IterV(lambda r: SeqV(lambda c: field(r, c), T.llen(row(r)), 'rows[%s]' % r), nrows, 'rows')
            tools = ObjV('module', {'csv_iterrows': rec.fn('tools.csv_iterrows', rows)}, name='tools')

            def int_(p, a, k):
                if k or len(a) != 1 or getattr(a[0], 'ident', None) is None:
                    raise Unsupported('int of %r' % (a,))
                v = T.int_of(a[0].ident)
                # map(int, values) is evaluated at a generic index: the obligation concerns the fields that exist
                p.oblige('int(text)/the-text-is-the-decimal-text-of-a-natural (no ValueError)', 'call',
                         Implies(getattr(a[0], 'exists', BoolVal(True)), And(v >= 0, a[0].ident == T.dec(v))))
                return IntV(v)
            env, given = {'path': cio.arg('path')}, {}
            for nm in ('encoding', 'newline'):
                cio.optional(path, env, given, nm)
            spec = LoopSpec(lambda e, k: [])

            def yields(e, k):
                def value_ok(val):
                    if not isinstance(val, SeqV):
                        return BoolVal(False)
                    c = path.fresh_int('c')
                    el = val.at(c)
                    if not isinstance(el, IntV):
                        return BoolVal(False)
                    # the tuple yielded for row k of the file is the k-th index list written
                    return And(val.length == T.idx_len(R, k), Implies(And(0 <= c, c < T.idx_len(R, k)), el.t == T.idx_at(R, k, c)))
                return BoolVal(True), value_ok
            spec.yields = yields

            def finish(path, env_, outcome):
                if outcome[0] != 'return':
                    path.oblige('post/no-exception', 'post', BoolVal(False))
                    return
                ok = rec.names() == ['tools.csv_iterrows']
                b = cio.bind_real(cio.TL, 'csv_iterrows', rec.calls[0][1], rec.calls[0][2]) if ok else None
                path.oblige('post/rows-of-the-file-in-the-fimi-dialect-with-encoding-and-newline', 'post', BoolVal(
                    b is not None and not b[1] and cio.only(b[0], path=env['path'], dialect=Dialect, **cio._fimi_defaults(given))))
                path.oblige('post/as-many-tuples-as-rows-written', 'post', nrows == N)
                path.oblige('post/only-the-loop-yields', 'post', BoolVal(len(path.out) == 0))
            from contracts import lib
            g = dict(lib.builtins(), tools=tools, Fimi=cio._fimi_class(), FimiDialect=Dialect, int=FuncV('int', int_))
            return env, {'globals': g, 0: spec}, finish
        return _axioms(T), harness
    return make


register(Unit('formats.fimi.read_concepts_dat.written', FIMI, 'read_concepts_dat', _read_concepts_dat_written_unit(),
              assumptions=['contracts of the proved units formats.fimi.write_concepts_dat, tools.write_csv_file, tools.csv_iterrows: the rows handed to the loop are the '
                           'rows csv.reader makes of the text csv.writer wrote for the index lists (a caller that passes its own encoding / newline is assumed to '
                           'have written the file with the same)',
                           'tuple(map(f, xs)) = the tuple of f(x) in order; REP: the index numbers are natural numbers'] + _FIMI_LIBRARY,
              linkage=[('concepts.formats.read_concepts_dat', None)]))


def necessity_fimi():
    """lemma.fimi.roundtrip without "the numbers are natural" must lose an obligation (the model of f'{i:d}' / int() is for naturals)"""
    from pyvc import engine, solve
    axioms, prove = _fimi_lemma(drop=('index-numbers-are-natural',))()
    eng = engine.Engine('necessity', axioms)
    lost = 0
    for vc in eng.run_lemma(prove):
        solve.discharge(vc, axioms, use_cvc5=False)
        lost += vc.status != 'discharged'
    assert lost > 0
    return 1


# =====================================================================================================================
# self-test of the precondition: without any one conjunct of REP the lemma is NOT provable (thorough tier)

def necessity(verbose=False):
    """Run lemma.table.roundtrip with one conjunct of REP left out (or one part of `label` left out) at a time; every such run must lose
    at least one obligation.  Returns the number of weakened preconditions tried.  (That the real round trip FAILS without them is the
    module docstring's negative knowledge and bounded/table_rep.py; this shows the proof uses them.)"""
    from pyvc import engine, solve
    tried = 0
    for drop in (('at-least-one-property',), ('at-least-one-object',), ('one-row-per-object',), ('one-cell-per-property',),
                 ('object-labels-representable',), ('property-labels-representable',)) + tuple(
                     ('label-without:' + part,) for part in LABEL_PARTS + ('ne',)):
        axioms, prove = _roundtrip_lemma(drop=drop)()
        eng = engine.Engine('necessity', axioms)
        lost = []
        for vc in eng.run_lemma(prove):
            solve.discharge(vc, axioms, use_cvc5=False)
            if vc.status != 'discharged':
                lost.append(vc.name)
        if verbose:
            print(drop[-1], lost)
        assert lost, ('the lemma is provable without', drop)
        tried += 1
    return tried
