"""Contracts for concepts/contexts.py: intension/extension/__getitem__ (C01, C02), _minimize/_minimal (C18),
Context.neighbors (C05)."""
from z3 import And, BoolSort, BoolVal, ForAll, Function, Implies, Int, IntSort, Ints, MultiPattern, Not, Or

from pyvc.bits import bit
from pyvc.engine import BoolV, FuncV, IntV, IterV, LoopSpec, NONE, ObjV, PyRaise, TupleV, truthy
from contracts import lib
from contracts.ctxtheory import Ctx
from contracts.latinv import context_obj
from contracts.registry import Unit, register

I = IntSort()


def full_context_obj(C):
    ctx = context_obj(C)
    ctx.fields['_Objects'] = lib.bitset_class(C, 'Objects')
    ctx.fields['_Properties'] = lib.bitset_class(C, 'Properties')
    meths = C.closure_funcs()
    for tag in ('Objects', 'Properties'):
        for nm in ('prime', 'double', 'doubleprime'):      # the closures are also class attributes of the bitset class
            ctx.fields['_' + tag].fields[nm] = meths[(tag, nm)]
    return ctx


def _loops(C, extra=None):
    d = {'int_methods': lib.int_methods(C), 'globals': lib.builtins()}
    d.update(extra or {})
    return d


def _no_exc(path, outcome):
    if outcome[0] != 'return':
        path.oblige('post/no-exception', 'post', BoolVal(False))
        return False
    return True


def _members_is(path, name, val, bits_term, domain):
    ok = isinstance(val, ObjV) and val.cls == 'LabelTuple' and val.fields['domain'].value == domain
    path.oblige('post/%s-label-form' % name, 'post', BoolVal(ok))
    if ok:
        path.oblige('post/%s-labels' % name, 'post', val.fields['bits'].t == bits_term)


def _derivation_unit(fname, side):
    """intension(objects, raw): exactly the properties that every one of those objects has (= Up of the named set);
    raw form: the tagged bitset; label form: its members() (same set, context order by the library contract)."""
    def make():
        C = Ctx()

        def harness(path):
            q = lib.Query(C, path)
            raw = path.fresh_bool('raw')
            env = {'self': full_context_obj(C), ('objects' if side == 'O' else 'properties'): q.val, 'raw': BoolV(raw)}
            ok = q.all_obj if side == 'O' else q.all_prop
            A = q.A if side == 'O' else q.B
            spec = C.Up(A) if side == 'O' else C.Dn(A)
            out_tag = 'Properties' if side == 'O' else 'Objects'

            def finish(path, env, outcome):
                kind, val = outcome
                if kind == 'raise':
                    # unknown names: KeyError from the library lookup, exactly when some name is not of the right kind
                    path.oblige('post/raises-only-on-unknown-name', 'post', And(BoolVal(val == 'KeyError'), Not(ok)))
                    return
                path.oblige('post/accepted', 'post', ok)
                if isinstance(val, IntV):
                    path.oblige('post/raw-form', 'post', raw)
                    path.oblige('post/raw-value', 'post', val.t == spec)
                    path.oblige('post/raw-tag', 'post', BoolVal(val.tag == out_tag))
                else:
                    path.oblige('post/label-form-when-not-raw', 'post', Not(raw))
                    _members_is(path, fname, val, spec, out_tag)
            return env, _loops(C), finish
        return C.axioms(), harness
    return make


register(Unit('contexts.intension', 'concepts/contexts.py', 'PrimeMixin.intension', _derivation_unit('intension', 'O'),
              assumptions=['bitsets contracts: frommembers (set of named members, KeyError iff unknown name), members() (labels of set bits, ascending)',
                           'contract of Objects.prime proved in unit matrices.prime'],
              linkage=[('type(ctx).intension', None)]))
register(Unit('contexts.extension', 'concepts/contexts.py', 'PrimeMixin.extension', _derivation_unit('extension', 'P'),
              assumptions=['bitsets contracts: frommembers, members()', 'contract of Properties.prime proved in unit matrices.prime'],
              linkage=[('type(ctx).extension', None)]))


def _getitem_unit():
    def make():
        C = Ctx()

        def harness(path):
            q = lib.Query(C, path)
            raw = path.fresh_bool('raw')
            # CtxInv: labels of objects and properties are disjoint; the query is non-empty
            path.assume(Not(And(q.all_obj, q.all_prop)))
            env = {'self': full_context_obj(C), 'items': q.val, 'raw': BoolV(raw)}

            def finish(path, env, outcome):
                kind, val = outcome
                if kind == 'raise':
                    path.oblige('post/raises-only-on-mixed-or-unknown', 'post',
                                And(BoolVal(val == 'KeyError'), Not(q.all_obj), Not(q.all_prop)))
                    return
                path.oblige('post/accepted', 'post', Or(q.all_obj, q.all_prop))
                # (A'', A') for objects, (B', B'') for properties -- extent first, intent second
                ext_spec = lambda: None
                e_obj, i_obj = C.Cl(q.A), C.Up(q.A)
                e_prop, i_prop = C.Dn(q.B), C.Cl2(q.B)
                from z3 import If
                e_spec = If(q.all_obj, e_obj, e_prop)
                i_spec = If(q.all_obj, i_obj, i_prop)
                path.oblige('post/pair', 'post', BoolVal(isinstance(val, TupleV) and len(val.items) == 2))
                e, i = val.items
                if isinstance(e, IntV):
                    path.oblige('post/raw-form', 'post', raw)
                    path.oblige('post/extent', 'post', e.t == e_spec)
                    path.oblige('post/intent', 'post', i.t == i_spec)
                    path.oblige('post/tags', 'post', BoolVal(e.tag == 'Objects' and i.tag == 'Properties'))
                else:
                    path.oblige('post/label-form-when-not-raw', 'post', Not(raw))
                    _members_is(path, 'extent', e, e_spec, 'Objects')
                    _members_is(path, 'intent', i, i_spec, 'Properties')
            return env, _loops(C), finish
        return C.axioms(), harness
    return make


register(Unit('contexts.getitem', 'concepts/contexts.py', 'PrimeMixin.__getitem__', _getitem_unit(),
              assumptions=['CtxInv: object and property labels are disjoint', 'bitsets contracts: frommembers, members()',
                           'contracts of doubleprime proved in unit matrices.doubleprime'],
              linkage=[('type(ctx).__getitem__', None)]))


# ---- C18: _minimize / _minimal

class Powerset:
    """bitsets contract of `intent.powerset()`: every subset of the receiver exactly once, in shortlex order."""

    def __init__(self, C, intent, path):
        self.len = Int('pw.len')
        self.at = Function('pw.at', I, I)
        self.pos = Function('pw.pos', I, I)
        k, s = Ints('k s')
        sub = C.sets.subset
        path.assume(self.len >= 1)
        path.assume(ForAll([k], Implies(And(0 <= k, k < self.len),
                                        And(self.at(k) >= 0, sub(self.at(k), intent), self.pos(self.at(k)) == k)),
                           patterns=[self.at(k)]))
        path.assume(ForAll([s], Implies(And(s >= 0, sub(s, intent)),
                                        And(0 <= self.pos(s), self.pos(s) < self.len, self.at(self.pos(s)) == s)),
                           patterns=[self.pos(s)]))

    def iterv(self):
        return IterV(lambda k: IntV(self.at(k), 'Properties'), self.len, 'powerset')


def _minimize_unit():
    def make():
        C = Ctx()

        def harness(path):
            extent = C.fresh_objset(path, 'extent')
            intent = C.fresh_propset(path, 'intent')
            pw = Powerset(C, intent.t, path)
            meths = lib.int_methods(C)
            meths[('Properties', 'powerset')] = FuncV('powerset', lambda p, args, kw: pw.iterv())
            env = {'extent': extent, 'intent': intent}

            def inv(e, k):
                return []
            spec = LoopSpec(inv)
            spec.on_entry = lambda p, env: p.ghost.__setitem__('loop0', True)
            # the loop is the filter of the powerset by "its common objects are the concept's extent"
            spec.yields = lambda e, k: (C.Dn(pw.at(k)) == extent.t, IntV(pw.at(k), 'Properties'))

            def finish(path, env, outcome):
                if not _no_exc(path, outcome):
                    return
                # empty extent: exactly the full intent, and the filter loop is not entered;
                # non-empty extent: nothing outside the filter loop (whose yields are pinned by the yields clause)
                if path.ghost.get('loop0'):
                    path.oblige('post/nonempty-extent-only-filter-yields', 'post',
                                And(extent.t != 0, BoolVal(len(path.out) == 0)))
                else:
                    ok = len(path.out) == 1 and isinstance(path.out[0], IntV)
                    path.oblige('post/empty-extent-yields-intent', 'post',
                                And(extent.t == 0, path.out[0].t == intent.t, BoolVal(path.out[0].tag == 'Properties'))
                                if ok else BoolVal(False))
            return env, {'int_methods': meths, 'globals': lib.builtins(), 0: spec}, finish
        return C.axioms(), harness
    return make


register(Unit('contexts.minimize', 'concepts/contexts.py', 'MinimizeMixin._minimize', _minimize_unit(),
              assumptions=['bitsets contract: powerset() yields every subset of the receiver exactly once in shortlex order (run-time checked, bounded)',
                           'contract of Properties.prime proved in unit matrices.prime',
                           'yields clause: iteration k of the filter loop yields powerset[k] iff Dn(powerset[k]) = extent'],
              linkage=[('type(ctx)._minimize', None)]))


# ---- C05: Context.neighbors / _neighbors

class NeighborSeq:
    """What lindig.neighbors(A) yields (contract proved in unit lindig.neighbors + Lean corollary cover_unique_gen):
    a finite sequence of pairs (E_t, Up(E_t)), the upper covers of A, each once."""

    def __init__(self, C, path, A):
        self.len = Int('nb.len')
        self.E = Function('nb.E', I, I)
        self.A = A
        path.assume(self.len >= 0)

    def iterv(self, C):
        return IterV(lambda t: TupleV([IntV(self.E(t), 'Objects'), IntV(C.Up(self.E(t)), 'Properties')]), self.len, 'neighbors')


def _ctx_neighbors_unit():
    def make():
        C = Ctx()

        def harness(path):
            q = lib.Query(C, path)
            raw = path.fresh_bool('raw')
            ctx = full_context_obj(C)
            calls = []

            def _neighbors(p, args, kw):
                (arg,) = args
                # pre@call of lindig.neighbors: the argument is an extent of this context
                p.oblige('pre@_neighbors/extent', 'pre@call', And(C.is_objset(arg.t), C.Cl(arg.t) == arg.t))
                nb = NeighborSeq(C, p, arg.t)
                calls.append((arg, nb))
                return nb.iterv(C)
            ctx.fields['_neighbors'] = FuncV('_neighbors', _neighbors)
            env = {'self': ctx, 'objects': q.val, 'raw': BoolV(raw)}

            def finish(path, env, outcome):
                kind, val = outcome
                if kind == 'raise':
                    path.oblige('post/raises-only-on-unknown-name', 'post', And(BoolVal(val == 'KeyError'), Not(q.all_obj)))
                    return
                path.oblige('post/one-call', 'post', BoolVal(len(calls) == 1))
                arg, nb = calls[0]
                # the upper covers of the concept generated by those objects: neighbors of Cl(A)
                path.oblige('post/argument-is-generated-extent', 'post', arg.t == C.Cl(q.A))
                from pyvc.engine import SeqV
                ok = isinstance(val, (SeqV, IterV))
                path.oblige('post/list', 'post', BoolVal(ok))
                if not ok:
                    return
                path.oblige('post/length', 'post', val.length == nb.len)
                t = path.fresh_int('t')
                path.assume(And(0 <= t, t < nb.len))
                el = val.at(t)
                e, i = el.items
                if isinstance(e, IntV):
                    path.oblige('post/raw-form', 'post', raw)
                    path.oblige('post/element', 'post', And(e.t == nb.E(t), i.t == C.Up(nb.E(t))))
                else:
                    path.oblige('post/label-form-when-not-raw', 'post', Not(raw))
                    _members_is(path, 'extent', e, nb.E(t), 'Objects')
                    _members_is(path, 'intent', i, C.Up(nb.E(t)), 'Properties')
            return env, _loops(C), finish
        return C.axioms(), harness
    return make


register(Unit('contexts.neighbors', 'concepts/contexts.py', 'LatticeMixin.neighbors', _ctx_neighbors_unit(),
              assumptions=['contract of lindig.neighbors (unit lindig.neighbors + lemmas/Lindig.lean) used at the call through self._neighbors',
                           'bitsets contracts: frommembers, members()', 'contract of Objects.double proved in unit matrices.double'],
              linkage=[('type(ctx).neighbors', None)]))


def _ctx__neighbors_unit():
    def make():
        C = Ctx()

        def harness(path):
            ctx = full_context_obj(C)
            A = C.fresh_objset(path, 'objects0')
            seen = []
            sentinel = ObjV('generator', {}, name='neighbors-generator')

            def alg_neighbors(p, args, kw):
                seen.append((args, kw))
                return sentinel
            algorithms = ObjV('module', {'neighbors': FuncV('algorithms.neighbors', alg_neighbors)}, name='algorithms')
            env = {'self': ctx, 'objects': A}
            loops = _loops(C)
            loops['globals'] = dict(loops['globals'], algorithms=algorithms)

            def finish(path, env, outcome):
                if not _no_exc(path, outcome):
                    return
                ok = (len(seen) == 1 and len(seen[0][0]) == 1 and seen[0][0][0] is A and set(seen[0][1]) == {'Objects'}
                      and seen[0][1]['Objects'] is ctx.fields['_Objects'] and outcome[1] is sentinel)
                path.oblige('post/pass-through', 'post', BoolVal(ok))
            return env, loops, finish
        return C.axioms(), harness
    return make


register(Unit('contexts._neighbors', 'concepts/contexts.py', 'LatticeMixin._neighbors', _ctx__neighbors_unit(),
              assumptions=['pass-through to algorithms.neighbors with this context\'s object bitset class'],
              linkage=[('type(ctx)._neighbors', None)]))


# ---- C14: Context.__eq__ / __ne__ -- "two contexts are equal exactly when their triples are equal"

def _eq_unit(name):
    def make():
        C = Ctx()

        def harness(path):
            from z3 import Bool
            eqs = {f: Bool('eq.' + f) for f in ('objects', 'properties', 'bools')}
            is_ctx = path.fresh_bool('other_is_context')

            def opaque(owner, field):
                o = ObjV('Opaque', {}, name='%s.%s' % (owner, field))
                o.owner, o.field = owner, field

                def _eq(p, args, kw):
                    a, b = args
                    if getattr(b, 'field', None) != a.field:
                        return BoolV(False)
                    if a.owner == b.owner:
                        return BoolV(True)
                    return BoolV(eqs[a.field])
                o.fields['__eq__'] = FuncV('tuple.__eq__', _eq)
                return o
            NotImpl = ObjV('NotImplementedType', {}, name='NotImplemented')
            Context = ClassV('Context')

            def mk(owner, cls):
                o = ObjV(cls, {f: opaque(owner, f) for f in eqs}, name=owner)
                eq_all = And(*eqs.values())

                def ctx_eq(p, args, kw):
                    a, b = args
                    # contract of Context.__eq__ (proved in unit contexts.__eq__), used by __ne__
                    if b.cls != 'Context':
                        return NotImpl
                    return BoolV(eq_all if a is not b else True)
                o.fields['__eq__'] = FuncV('Context.__eq__', ctx_eq)
                return o
            this = mk('self', 'Context')
            other_kind = 'Context' if path.branch(is_ctx) else 'Other'
            other = mk('other', other_kind)
            g = dict(lib.builtins(), Context=Context, NotImplemented=NotImpl)
            env = {'self': this, 'other': other}

            def finish(path, env, outcome):
                if not _no_exc(path, outcome):
                    return
                val = outcome[1]
                if other_kind != 'Context':
                    path.oblige('post/non-context-NotImplemented', 'post', BoolVal(val is NotImpl))
                    return
                path.oblige('post/bool', 'post', BoolVal(isinstance(val, BoolV)))
                want = And(*eqs.values())
                path.oblige('post/equal-iff-triples-equal', 'post',
                            truthy(val) == (want if name == '__eq__' else Not(want)))
            return env, {'globals': g}, finish
        return C.axioms(), harness
    return make


from pyvc.engine import ClassV  # noqa: E402

for _n in ('__eq__', '__ne__'):
    register(Unit('contexts.' + _n, 'concepts/contexts.py', 'ComparableMixin.' + _n, _eq_unit(_n),
                  assumptions=['tuple/list equality of objects/properties/bools is structural equality of the triples (builtin)',
                               '__ne__: contract of __eq__ (unit contexts.__eq__) at the call `self == other`'],
                  linkage=[('type(ctx).%s' % _n, None)]))
