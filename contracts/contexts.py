"""Contracts for concepts/contexts.py: intension/extension/__getitem__ (C01, C02), _minimize/_minimal (C18),
Context.neighbors (C05)."""
from z3 import And, BoolSort, BoolVal, ForAll, Function, Implies, Int, IntSort, Ints, MultiPattern, Not, Or

from pyvc.bits import bit
from pyvc.engine import BoolV, FuncV, IntV, IterV, LoopSpec, NONE, ObjV, PyRaise, TupleV, truthy
from contracts import lib
from contracts.ctxtheory import Ctx
from contracts.latinv import context_obj
from contracts.registry import Unit, register

I = IntSort()


def full_context_obj(C):
    ctx = context_obj(C)
    ctx.fields['_Objects'] = lib.bitset_class(C, 'Objects')
    ctx.fields['_Properties'] = lib.bitset_class(C, 'Properties')
    return ctx


def _loops(C, extra=None):
    d = {'int_methods': lib.int_methods(C), 'globals': lib.builtins()}
    d.update(extra or {})
    return d


def _no_exc(path, outcome):
    if outcome[0] != 'return':
        path.oblige('post/no-exception', 'post', BoolVal(False))
        return False
    return True


def _members_is(path, name, val, bits_term, domain):
    ok = isinstance(val, ObjV) and val.cls == 'LabelTuple' and val.fields['domain'].value == domain
    path.oblige('post/%s-label-form' % name, 'post', BoolVal(ok))
    if ok:
        path.oblige('post/%s-labels' % name, 'post', val.fields['bits'].t == bits_term)


def _derivation_unit(fname, side):
    """intension(objects, raw): exactly the properties that every one of those objects has (= Up of the named set);
    raw form: the tagged bitset; label form: its members() (same set, context order by the library contract)."""
    def make():
        C = Ctx()

        def harness(path):
            q = lib.Query(C, path)
            raw = path.fresh_bool('raw')
            env = {'self': full_context_obj(C), ('objects' if side == 'O' else 'properties'): q.val, 'raw': BoolV(raw)}
            ok = q.all_obj if side == 'O' else q.all_prop
            A = q.A if side == 'O' else q.B
            spec = C.Up(A) if side == 'O' else C.Dn(A)
            out_tag = 'Properties' if side == 'O' else 'Objects'

            def finish(path, env, outcome):
                kind, val = outcome
                if kind == 'raise':
                    # unknown names: KeyError from the library lookup, exactly when some name is not of the right kind
                    path.oblige('post/raises-only-on-unknown-name', 'post', And(BoolVal(val == 'KeyError'), Not(ok)))
                    return
                path.oblige('post/accepted', 'post', ok)
                if isinstance(val, IntV):
                    path.oblige('post/raw-form', 'post', raw)
                    path.oblige('post/raw-value', 'post', val.t == spec)
                    path.oblige('post/raw-tag', 'post', BoolVal(val.tag == out_tag))
                else:
                    path.oblige('post/label-form-when-not-raw', 'post', Not(raw))
                    _members_is(path, fname, val, spec, out_tag)
            return env, _loops(C), finish
        return C.axioms(), harness
    return make


register(Unit('contexts.intension', 'concepts/contexts.py', 'PrimeMixin.intension', _derivation_unit('intension', 'O'),
              assumptions=['bitsets contracts: frommembers (set of named members, KeyError iff unknown name), members() (labels of set bits, ascending)',
                           'contract of Objects.prime proved in unit matrices.prime'],
              linkage=[('type(ctx).intension', None)]))
register(Unit('contexts.extension', 'concepts/contexts.py', 'PrimeMixin.extension', _derivation_unit('extension', 'P'),
              assumptions=['bitsets contracts: frommembers, members()', 'contract of Properties.prime proved in unit matrices.prime'],
              linkage=[('type(ctx).extension', None)]))


def _getitem_unit():
    def make():
        C = Ctx()

        def harness(path):
            q = lib.Query(C, path)
            raw = path.fresh_bool('raw')
            # CtxInv: labels of objects and properties are disjoint; the query is non-empty
            path.assume(Not(And(q.all_obj, q.all_prop)))
            env = {'self': full_context_obj(C), 'items': q.val, 'raw': BoolV(raw)}

            def finish(path, env, outcome):
                kind, val = outcome
                if kind == 'raise':
                    path.oblige('post/raises-only-on-mixed-or-unknown', 'post',
                                And(BoolVal(val == 'KeyError'), Not(q.all_obj), Not(q.all_prop)))
                    return
                path.oblige('post/accepted', 'post', Or(q.all_obj, q.all_prop))
                # (A'', A') for objects, (B', B'') for properties -- extent first, intent second
                ext_spec = lambda: None
                e_obj, i_obj = C.Cl(q.A), C.Up(q.A)
                e_prop, i_prop = C.Dn(q.B), C.Cl2(q.B)
                from z3 import If
                e_spec = If(q.all_obj, e_obj, e_prop)
                i_spec = If(q.all_obj, i_obj, i_prop)
                path.oblige('post/pair', 'post', BoolVal(isinstance(val, TupleV) and len(val.items) == 2))
                e, i = val.items
                if isinstance(e, IntV):
                    path.oblige('post/raw-form', 'post', raw)
                    path.oblige('post/extent', 'post', e.t == e_spec)
                    path.oblige('post/intent', 'post', i.t == i_spec)
                    path.oblige('post/tags', 'post', BoolVal(e.tag == 'Objects' and i.tag == 'Properties'))
                else:
                    path.oblige('post/label-form-when-not-raw', 'post', Not(raw))
                    _members_is(path, 'extent', e, e_spec, 'Objects')
                    _members_is(path, 'intent', i, i_spec, 'Properties')
            return env, _loops(C), finish
        return C.axioms(), harness
    return make


register(Unit('contexts.getitem', 'concepts/contexts.py', 'PrimeMixin.__getitem__', _getitem_unit(),
              assumptions=['CtxInv: object and property labels are disjoint', 'bitsets contracts: frommembers, members()',
                           'contracts of doubleprime proved in unit matrices.doubleprime'],
              linkage=[('type(ctx).__getitem__', None)]))


# ---- C18: _minimize / _minimal

class Powerset:
    """bitsets contract of `intent.powerset()`: every subset of the receiver exactly once, in shortlex order."""

    def __init__(self, C, intent, path):
        self.len = Int('pw.len')
        self.at = Function('pw.at', I, I)
        self.pos = Function('pw.pos', I, I)
        k, s = Ints('k s')
        sub = C.sets.subset
        path.assume(self.len >= 1)
        path.assume(ForAll([k], Implies(And(0 <= k, k < self.len),
                                        And(self.at(k) >= 0, sub(self.at(k), intent), self.pos(self.at(k)) == k)),
                           patterns=[self.at(k)]))
        path.assume(ForAll([s], Implies(And(s >= 0, sub(s, intent)),
                                        And(0 <= self.pos(s), self.pos(s) < self.len, self.at(self.pos(s)) == s)),
                           patterns=[self.pos(s)]))

    def iterv(self):
        return IterV(lambda k: IntV(self.at(k), 'Properties'), self.len, 'powerset')


def _minimize_unit():
    def make():
        C = Ctx()

        def harness(path):
            extent = C.fresh_objset(path, 'extent')
            intent = C.fresh_propset(path, 'intent')
            pw = Powerset(C, intent.t, path)
            meths = lib.int_methods(C)
            meths[('Properties', 'powerset')] = FuncV('powerset', lambda p, args, kw: pw.iterv())
            env = {'extent': extent, 'intent': intent}

            def inv(e, k):
                return []
            spec = LoopSpec(inv)
            spec.on_entry = lambda p, env: p.ghost.__setitem__('loop0', True)
            # the loop is the filter of the powerset by "its common objects are the concept's extent"
            spec.yields = lambda e, k: (C.Dn(pw.at(k)) == extent.t, IntV(pw.at(k), 'Properties'))

            def finish(path, env, outcome):
                if not _no_exc(path, outcome):
                    return
                # empty extent: exactly the full intent, and the filter loop is not entered;
                # non-empty extent: nothing outside the filter loop (whose yields are pinned by the yields clause)
                if path.ghost.get('loop0'):
                    path.oblige('post/nonempty-extent-only-filter-yields', 'post',
                                And(extent.t != 0, BoolVal(len(path.out) == 0)))
                else:
                    ok = len(path.out) == 1 and isinstance(path.out[0], IntV)
                    path.oblige('post/empty-extent-yields-intent', 'post',
                                And(extent.t == 0, path.out[0].t == intent.t, BoolVal(path.out[0].tag == 'Properties'))
                                if ok else BoolVal(False))
            return env, {'int_methods': meths, 'globals': lib.builtins(), 0: spec}, finish
        return C.axioms(), harness
    return make


register(Unit('contexts.minimize', 'concepts/contexts.py', 'MinimizeMixin._minimize', _minimize_unit(),
              assumptions=['bitsets contract: powerset() yields every subset of the receiver exactly once in shortlex order (run-time checked, bounded)',
                           'contract of Properties.prime proved in unit matrices.prime',
                           'yields clause: iteration k of the filter loop yields powerset[k] iff Dn(powerset[k]) = extent'],
              linkage=[('type(ctx)._minimize', None)]))
