"""Close-by-One theory for the completeness / exactly-once proof of concepts/algorithms/fcbo.py (C04).

For one direction of the Galois connection (Side S: closure cl on the sets of width W; 'P' for fast_generate_from,
'O' for fcbo_dual), with K, D closed sets ("keys": intents resp. extents) and 0 <= y <= W:

  CJ(K, j)      := cl(K + {j})                                            the candidate generated from K by attribute j
  canon(K, j)   := forall k < j.  k in CJ(K, j) -> k in K                 the canonicity test of Close-by-One
  valid(K, j)   := j not in K  /\\  canon(K, j)
  agree(K,D,y)  := forall k < y.  k in D -> k in K
  In(K, y, D)   := K <= D  /\\  agree(K, D, y)                              D lies in the CbO subtree of the entry (K, y)
  jmin(K, D)    := the least element of D - K   ( tz(D & ~K) )

Lemmas (units lemma.cbo.*.<side>, proved by z3 from the BITS axioms, the definitions above and instances of
lemma.galois/galois2):
  child-exists   closed K, D, In(K,y,D), D != K  ->  j := jmin(K,D):  y <= j < W, valid(K,j), closed CJ(K,j), In(CJ(K,j), j+1, D)
  child-inside   closed K, y <= j < W, valid(K,j), In(CJ(K,j), j+1, D)  ->  In(K,y,D), D != K, jmin(K,D) = j
  child-index    closed K, 0 <= j < W  ->  In(CJ(K,j), j, D) = In(CJ(K,j), j+1, D)         (j is in CJ(K,j): entering the child at j or at j+1 is the same subtree)
  leaf           closed K, D, In(K,W,D) -> D = K;    closed K, D, K = full set, K <= D -> D = K
  root           closed D -> In(cl(0), 0, D);        up(0) = the full set of the other side; closed K with up(K) = 0 is the full set
  skip-sound     closed K, N <= CJ(K,j), canon(K,j)  ->  (N & below(j)) <= K          (the inherited failed-set test never skips a canonical child)
  mono           closed K <= closed K2  ->  CJ(K,j) <= CJ(K2,j)
  union          up(K + {j}) = up(K) & up({j})
Together: the subtree of (K,y) is {K} plus the disjoint union of the subtrees of its valid children (CJ(K,j), j+1), y <= j < W.
"""
from z3 import And, BoolSort, ForAll, Function, Implies, Int, IntSort, Ints, MultiPattern, Not, Or

from pyvc import bits
from pyvc.bits import atomv, band, bit, bnot, bor, maskv, tz
from contracts.ctxtheory import Ctx
from contracts.lemmas_z3 import (Side, ext, st_cl_def, st_dom, st_extensive, st_idem, st_least, st_monotone, st_antitone, st_up_cl,
                                 st_bits_subset, use_galois)
from contracts.registry import Unit, register

I = IntSort()
B = BoolSort()



class CbO:
    def __init__(self, C, dual):
        self.C, self.dual = C, dual
        self.S = Side(C, 'O' if dual else 'P')        # the side the keys live on
        self.D = Side(C, 'P' if dual else 'O')
        self.W = C.n if dual else C.m
        self.full = C.ObjSup if dual else C.PropSup
        self.ofull = C.PropSup if dual else C.ObjSup
        self.key_tag, self.other_tag = ('Objects', 'Properties') if dual else ('Properties', 'Objects')
        self.line = C.O.other_at if dual else C.O.self_at        # line(j) = up({j}): row intent / column extent of j
        self.canon = Function('canon', I, I, B)
        self.w_canon = Function('w.canon', I, I, I)
        self.agree = Function('agree', I, I, I, B)
        self.w_agree = Function('w.agree', I, I, I, I)
        self.sub = C.sets.subset
        # opaque names for valid(K, j) and CJ(K, j) in the loop invariants (their definitions are supplied as explicit instances
        # `bridge(K, j)` where an attribute j is actually looked at: keeps the quantifier instantiation of the big VCs small)
        self.validp = Function('validp', I, I, B)
        self.CJf = Function('CJf', I, I, I)

    # ---- terms and predicates
    def CJ(self, K, j):
        return self.S.cl(bor(K, atomv(j)))

    def closed(self, X):
        return And(self.S.dom_in(X), self.S.cl(X) == X)

    def valid(self, K, j):
        return And(Not(bit(K, j)), self.canon(K, j))

    def In(self, K, y, D):
        return And(self.sub(K, D), self.agree(K, D, y))

    def bridge(self, K, j):
        return And(self.validp(K, j) == self.valid(K, j), self.CJf(K, j) == self.CJ(K, j))

    def jmin(self, K, D):
        return tz(band(D, bnot(K)))

    def axioms(self):
        K, D, j, k, y, x = Ints('K D j k y x')
        T = self
        return [
            ('canon.elim', ForAll([K, j, k], Implies(And(T.canon(K, j), 0 <= k, k < j, bit(T.CJ(K, j), k)), bit(K, k)),
                                  patterns=[MultiPattern(T.canon(K, j), bit(T.CJ(K, j), k)), MultiPattern(T.canon(K, j), bit(K, k))])),
            ('canon.intro', ForAll([K, j], Implies(Not(T.canon(K, j)),
                                                   And(0 <= T.w_canon(K, j), T.w_canon(K, j) < j, bit(T.CJ(K, j), T.w_canon(K, j)),
                                                       Not(bit(K, T.w_canon(K, j))))), patterns=[T.canon(K, j)])),
            ('agree.elim', ForAll([K, D, y, k], Implies(And(T.agree(K, D, y), 0 <= k, k < y, bit(D, k)), bit(K, k)),
                                  patterns=[MultiPattern(T.agree(K, D, y), bit(D, k)), MultiPattern(T.agree(K, D, y), bit(K, k))])),
            ('agree.intro', ForAll([K, D, y], Implies(Not(T.agree(K, D, y)),
                                                      And(0 <= T.w_agree(K, D, y), T.w_agree(K, D, y) < y, bit(D, T.w_agree(K, D, y)),
                                                          Not(bit(K, T.w_agree(K, D, y))))), patterns=[T.agree(K, D, y)])),
        ]

    # ---- lemma statements
    def st_child_exists(self, K, y, D):
        T = self
        j = T.jmin(K, D)
        return Implies(And(T.closed(K), T.closed(D), 0 <= y, y <= T.W, T.In(K, y, D), D != K),
                       And(y <= j, j < T.W, T.valid(K, j), T.closed(T.CJ(K, j)), T.In(T.CJ(K, j), j + 1, D)))

    def st_child_inside(self, K, y, j, D):
        T = self
        return Implies(And(T.closed(K), 0 <= y, y <= j, j < T.W, T.valid(K, j), T.In(T.CJ(K, j), j + 1, D)),
                       And(T.In(K, y, D), D != K, T.jmin(K, D) == j))

    def st_child_index(self, K, j, D):
        """the child of attribute j contains j, so its subtree is the same whether it is entered with index j or j + 1
        (the code may push either: with index j the child looks at attribute j once more and skips it, it is in its key)"""
        T = self
        return Implies(And(T.closed(K), 0 <= j, j < T.W), T.In(T.CJ(K, j), j, D) == T.In(T.CJ(K, j), j + 1, D))

    def st_leaf(self, K, D):
        T = self
        return And(Implies(And(T.closed(K), T.closed(D), T.In(K, T.W, D)), D == K),
                   Implies(And(T.closed(K), T.closed(D), K == T.full, T.sub(K, D)), D == K))

    def st_up0(self):
        """the derivation of the empty set is the full set of the other side"""
        return And(self.S.up(0) == self.ofull, self.D.up(0) == self.full, self.S.dom_in(self.full), self.D.dom_in(self.ofull),
                   self.S.dom_in(0), self.D.dom_in(0))

    def st_full(self, K):
        """a closed key whose derivation is empty is the full set"""
        return Implies(And(self.closed(K), self.S.up(K) == 0), K == self.full)

    def st_root(self, D):
        T = self
        return Implies(T.closed(D), And(T.closed(T.S.cl(0)), T.In(T.S.cl(0), 0, D)))

    def st_skip_sound(self, K, j, N):
        T = self
        return Implies(And(T.closed(K), 0 <= j, j < T.W, N >= 0, T.sub(N, T.CJ(K, j)), T.canon(K, j)),
                       T.sub(band(N, maskv(j)), K))

    def st_canon_test(self, K, j):
        """the code's test  (CJ & mask) & K == (CJ & mask)  is the canonicity predicate"""
        T = self
        return Implies(And(T.closed(K), 0 <= j, j < T.W), T.sub(band(T.CJ(K, j), maskv(j)), K) == T.canon(K, j))

    def st_mono(self, K, K2, j):
        T = self
        return Implies(And(T.closed(K), T.closed(K2), T.sub(K, K2), 0 <= j, j < T.W), T.sub(T.CJ(K, j), T.CJ(K2, j)))

    def st_union(self, K, j):
        T = self
        return Implies(And(T.S.dom_in(K), 0 <= j, j < T.W),
                       And(T.S.dom_in(bor(K, atomv(j))),
                           T.S.up(bor(K, atomv(j))) == band(T.S.up(K), T.line(j)),
                           T.closed(T.CJ(K, j)), T.sub(K, T.CJ(K, j)), bit(T.CJ(K, j), j)))


def _theory(dual):
    C = Ctx()
    T = CbO(C, dual)
    S_, stmts = st_bits_subset()
    # lemma.bits_subset uses its own SetPreds instance with the same function names: same symbols
    return C, T, C.axioms() + T.axioms() + stmts


def _lemmas(dual):
    def make():
        C, T, axioms = _theory(dual)
        S = T.S

        def prove(path):
            K, K2, D, N, y, j = Ints('K K2 D N y j')
            a = atomv(j)
            KJ = bor(K, a)
            CJ = T.CJ(K, j)
            # ---- union: K + {j} is in the domain, its derivation is the intersection, CJ is closed and contains K and j
            path.assume(And(0 <= j, j < T.W))
            from contracts.fcbo import st_line_closed, st_line_derivation
            path.assume(st_line_derivation(C, 'row' if dual else 'col', j))
            path.oblige('union/dom', 'lemma', Implies(S.dom_in(K), S.dom_in(KJ)))
            use_galois(path, S, KJ)
            use_galois(path, S, K)
            use_galois(path, S, a)
            ext(path, S.up(KJ), band(S.up(K), T.line(j)))
            path.oblige('union/derivation', 'lemma', Implies(S.dom_in(K), S.up(KJ) == band(S.up(K), T.line(j))))
            path.oblige('union', 'lemma', T.st_union(K, j))
            # ---- canon-test
            path.oblige('canon-test', 'lemma', T.st_canon_test(K, j))
            # ---- skip-sound
            path.oblige('skip-sound', 'lemma', T.st_skip_sound(K, j, N))
            # ---- mono:  K <= K2 -> K+{j} <= CJ(K2,j) closed -> CJ(K,j) <= CJ(K2,j)   (lemma.galois2: least)
            KJ2 = bor(K2, a)
            use_galois(path, S, KJ2)
            path.assume(T.st_union(K2, j))
            path.assume(st_least(S, KJ, T.CJ(K2, j)))
            path.oblige('mono', 'lemma', T.st_mono(K, K2, j))
        return axioms, prove
    return make


def _lemmas2(dual):
    def make():
        C, T, axioms = _theory(dual)
        S = T.S

        def prove(path):
            K, D, y, j = Ints('K D y j')
            # ---- leaf
            ext(path, D, K)
            path.oblige('leaf', 'lemma', T.st_leaf(K, D))
            # ---- derivations of the empty set
            ext(path, S.up(0), T.ofull)
            ext(path, T.D.up(0), T.full)
            path.oblige('up0', 'lemma', T.st_up0())
            use_galois(path, S, K)
            path.oblige('full', 'lemma', T.st_full(K))
            # ---- root:  cl(0) <= cl(D) = D
            use_galois(path, S, 0)
            path.assume(st_monotone(S, 0, D))
            path.oblige('root', 'lemma', T.st_root(D))
        return axioms, prove
    return make


def _child_exists(dual):
    def make():
        C, T, axioms = _theory(dual)
        S = T.S

        def prove(path):
            K, D, y = Ints('K D y')
            path.assume(And(T.closed(K), T.closed(D), 0 <= y, y <= T.W, T.In(K, y, D), D != K))
            x = band(D, bnot(K))
            j = T.jmin(K, D)
            ext(path, D, K)
            path.oblige('difference-nonempty', 'lemma', x != 0)
            path.oblige('j-in-D-not-in-K', 'lemma', And(bit(D, j), Not(bit(K, j)), j >= 0))
            path.oblige('j-range', 'lemma', And(y <= j, j < T.W))
            path.assume(T.st_union(K, j))
            use_galois(path, S, bor(K, atomv(j)))
            path.assume(st_least(S, bor(K, atomv(j)), D))
            path.oblige('candidate-below-D', 'lemma', T.sub(T.CJ(K, j), D))
            path.oblige('canon', 'lemma', T.canon(K, j))
            path.oblige('agree', 'lemma', T.agree(T.CJ(K, j), D, j + 1))
            path.oblige('child-exists', 'lemma', T.st_child_exists(K, y, D))
        return axioms, prove
    return make


def _child_inside(dual):
    def make():
        C, T, axioms = _theory(dual)
        S = T.S

        def prove(path):
            K, D, y, j = Ints('K D y j')
            path.assume(And(T.closed(K), 0 <= y, y <= j, j < T.W, T.valid(K, j), T.In(T.CJ(K, j), j + 1, D)))
            path.assume(T.st_union(K, j))
            x = band(D, bnot(K))
            path.oblige('j-in-D', 'lemma', bit(D, j))
            path.oblige('K-below-D', 'lemma', T.sub(K, D))
            path.oblige('agree', 'lemma', T.agree(K, D, y))
            path.oblige('D-not-K', 'lemma', D != K)
            path.oblige('bit-j', 'lemma', And(bit(x, j), x != 0))
            path.oblige('jmin-le', 'lemma', tz(x) <= j)
            path.oblige('jmin-ge', 'lemma', tz(x) >= j)
            path.oblige('child-inside', 'lemma', T.st_child_inside(K, y, j, D))
            # ---- child-index (independent of the assumptions above: stated as an implication, proved from union)
            K2, D2, j2 = Ints('K2 D2 j2')
            path.assume(T.st_union(K2, j2))
            path.oblige('child-index', 'lemma', T.st_child_index(K2, j2, D2))
        return axioms, prove
    return make


for _dual, _sd in ((False, 'P'), (True, 'O')):
    register(Unit('lemma.cbo.basic.' + _sd, None, None, _lemmas(_dual),
                  assumptions=['instances of lemma.galois/galois2, lemma.line_closed (is-derivation), lemma.bits_subset; B12 (mask bits)']))
    register(Unit('lemma.cbo.leaf_root.' + _sd, None, None, _lemmas2(_dual), assumptions=['instances of lemma.galois/galois2']))
    register(Unit('lemma.cbo.child_exists.' + _sd, None, None, _child_exists(_dual), assumptions=['lemma.cbo.basic (union), lemma.galois2 (least)']))
    register(Unit('lemma.cbo.child_inside.' + _sd, None, None, _child_inside(_dual), assumptions=['lemma.cbo.basic (union)']))
