"""Assumed contracts of the bitsets library and builtins (DESIGN 5.5) as FuncV implementations.
Never counted as proved; each is run-time checked by the bounded side where it is observed."""
from z3 import And, BoolSort, BoolVal, ForAll, Function, Implies, Int, IntSort, Ints, MultiPattern, Not, Or

from pyvc.bits import bit
from pyvc.engine import (BoolV, ClassV, FuncV, IntV, IterV, ListV, NONE, ObjV, PyRaise, SeqV, StrV, TupleV, Unsupported,
                         NoneV)

I = IntSort()


class Query:
    """An iterable of labels passed by the caller (arbitrary order, possibly with duplicates).
    Abstracted by: all_obj / all_prop (every item is an object / a property label), and the bitsets
    A (objects named) and B (properties named).  CtxInv: object and property labels are disjoint."""

    def __init__(self, C, path, name='q'):
        from z3 import Bool
        self.C = C
        self.all_obj = Bool(name + '.all_obj')
        self.all_prop = Bool(name + '.all_prop')
        self.A = Int(name + '.A')
        self.B = Int(name + '.B')
        path.assume(Implies(self.all_obj, C.is_objset(self.A)))
        path.assume(Implies(self.all_prop, C.is_propset(self.B)))
        self.val = ObjV('LabelIterable', {}, name=name)
        self.val.query = self


def bitset_class(C, tag):
    """ctx._Objects / ctx._Properties: frommembers, fromint, supremum, infimum, reduce_or, reduce_and, atomic."""
    dom = C.is_objset if tag == 'Objects' else C.is_propset
    width = C.n if tag == 'Objects' else C.m
    sup = C.ObjSup if tag == 'Objects' else C.PropSup
    cls = ObjV('BitSetClass', {}, name='_' + tag)

    def frommembers(p, args, kw):
        q = getattr(args[-1], 'query', None)
        if q is None:
            if isinstance(args[-1], (TupleV, ListV)) and not args[-1].items:
                return IntV(0, tag)
            raise Unsupported('frommembers of %r' % (args[-1],))
        ok = q.all_obj if tag == 'Objects' else q.all_prop
        if p.branch(ok):
            return IntV(q.A if tag == 'Objects' else q.B, tag)
        raise PyRaise('KeyError')
    cls.fields['frommembers'] = FuncV(tag + '.frommembers', frommembers)
    cls.fields['fromint'] = FuncV(tag + '.fromint', lambda p, args, kw: IntV(args[-1].t, tag))
    cls.fields['supremum'] = IntV(sup, tag)
    cls.fields['infimum'] = IntV(0, tag)

    def reduce(kind):
        def f(p, args, kw):
            it = args[-1]
            if not isinstance(it, (IterV, SeqV)):
                raise Unsupported('reduce over %r' % (it,))
            n = next(p.eng.counter)
            R = Int('%s.reduce_%s!%d' % (tag, kind, n))
            wit = Function('%s.reduce_%s.w!%d' % (tag, kind, n), I, I)
            k, t = Ints('k t')
            el = lambda tt: it.at(tt).t
            p.assume(it.length >= 0)
            if kind == 'or':
                # bit(R,k) <-> exists t in range. bit(el(t),k)
                p.assume(ForAll([k, t], Implies(And(0 <= t, t < it.length, bit(el(t), k)), bit(R, k)),
                                patterns=[bit(el(t), k)]))
                p.assume(ForAll([k], Implies(bit(R, k), And(0 <= wit(k), wit(k) < it.length, bit(el(wit(k)), k))),
                                patterns=[bit(R, k)]))
                p.assume(R >= 0)
            else:
                # bit(R,k) <-> k in domain /\ forall t in range. bit(el(t),k)
                p.assume(ForAll([k, t], Implies(And(bit(R, k), 0 <= t, t < it.length), bit(el(t), k)),
                                patterns=[MultiPattern(bit(R, k), el(t))]))
                p.assume(ForAll([k], Implies(And(0 <= k, k < width, Not(bit(R, k))),
                                             And(0 <= wit(k), wit(k) < it.length, Not(bit(el(wit(k)), k)))),
                                patterns=[bit(R, k)]))
                p.assume(ForAll([k], Implies(bit(R, k), And(0 <= k, k < width)), patterns=[bit(R, k)]))
                p.assume(R >= 0)
            r = IntV(R, tag)
            r.reduce_wit = wit
            return r
        return f
    cls.fields['reduce_or'] = FuncV(tag + '.reduce_or', reduce('or'))
    cls.fields['reduce_and'] = FuncV(tag + '.reduce_and', reduce('and'))
    return cls


def label_tuple(bits_val, domain):
    """bitset.members(): the labels of the set bits, ascending, as an opaque tuple of labels."""
    o = ObjV('LabelTuple', {'bits': IntV(bits_val.t), 'domain': StrV(domain)}, name='members(%s)' % domain)
    return o


def int_methods(C):
    """methods on tagged bitset values: closures (proved contracts) + library methods (assumed contracts)."""
    t = dict(C.closure_funcs())
    for tag in ('Objects', 'Properties'):
        t[(tag, 'members')] = FuncV(tag + '.members', lambda p, args, kw, _tag=tag: label_tuple(args[0], _tag))
    return t


def key_present(p, name, present, exc='KeyError'):
    """A lookup that raises `exc` when the key / index is absent (A-EXC).  Outside a handler for `exc` the presence is an obligation
    (`name`: the exception must be proved impossible).  Inside the try suite of a handler the absence is ordinary control flow: the
    obligation reads "present, or the exception is caught by the code" (trivially true there), the path splits, and the absent case
    raises into the handler -- `if k in d: use(d[k])` and `try: v = d[k] except KeyError: ... else: use(v)` are the same program."""
    from pyvc.engine import PyRaise
    caught = p.interp.catches(exc)
    p.oblige(name, 'key', Or(present, BoolVal(True)) if caught else present)
    if caught and not p.branch(present):
        raise PyRaise(exc)


def builtins():
    def _isinstance(p, args, kw):
        v, cls = args
        names = [c.name for c in (cls.items if isinstance(cls, TupleV) else [cls])]
        kind = {'IntV': 'int', 'BoolV': 'bool', 'StrV': 'str', 'TupleV': 'tuple', 'ListV': 'list'}.get(type(v).__name__)
        if isinstance(v, ObjV) and getattr(v, 'isinstance_fn', None) is not None:
            return BoolV(v.isinstance_fn(names))
        if isinstance(v, ObjV) and v.cls in ('LabelIterable', 'Iterable'):
            # an argument the contract abstracts as "any iterable the caller may pass": its concrete type is not known, so a type test
            # on it is undetermined -- both outcomes are explored (soundness repair after seeded change C01-N: a list/tuple fast path)
            return BoolV(p.fresh_bool('isinstance(%s)' % v.name))
        if isinstance(v, ObjV):
            kind = v.cls
        if kind is None:
            raise Unsupported('isinstance of %r' % (v,))
        return BoolV(kind in names or (kind == 'bool' and 'int' in names))

    def _len(p, args, kw):
        v = args[0]
        if isinstance(v, (TupleV, ListV)):
            return IntV(len(v.items))
        if isinstance(v, (SeqV, IterV)):
            return IntV(v.length)
        if isinstance(v, ObjV) and '__len__' in v.fields:
            return v.fields['__len__'].fn(p, [v], {})
        if isinstance(v, ObjV) and getattr(v, 'truth_fn', None) is not None and v.cls in ('heap', 'list', 'set', 'dict', 'tuple', 'LabelTuple'):
            # a builtin container the contract models by its truthiness only: len(c) is some n >= 0 with (n > 0) == bool(c)
            n = p.fresh_int('len')
            p.assume(And(n >= 0, (n > 0) == v.truth_fn()))
            return IntV(n)
        raise Unsupported('len of %r' % (v,))

    def _next(p, args, kw):
        it = args[0]
        if isinstance(it, ObjV) and '__next__' in it.fields:
            return it.fields['__next__'].fn(p, [it], {})
        raise Unsupported('next of %r' % (it,))

    def _tuple(p, args, kw):
        if not args:
            return TupleV([])
        v = args[0]
        if isinstance(v, (TupleV, ListV)):
            return TupleV(v.items)
        if isinstance(v, ObjV) and '__tuple__' in v.fields:
            return v.fields['__tuple__'].fn(p, [v], {})
        if isinstance(v, (IterV, SeqV)):
            return SeqV(v.at, v.length, 'tuple(%s)' % v.name)       # the same elements in the same order, immutable
        raise Unsupported('tuple of %r' % (v,))

    def _list(p, args, kw):
        if not args:
            return ListV([])
        v = args[0]
        if isinstance(v, (TupleV, ListV)):
            return ListV(v.items)
        if isinstance(v, ObjV) and '__list__' in v.fields:
            return v.fields['__list__'].fn(p, [v], {})
        if isinstance(v, (IterV, SeqV)):
            # list(iterable): the same elements in the same order (symbolic length)
            return SeqV(v.at, v.length, 'list(%s)' % v.name)
        raise Unsupported('list of %r' % (v,))
    def _enumerate(p, args, kw):
        (it,) = args
        if isinstance(it, ObjV) and '__iter__' in it.fields and not kw:
            it = p.interp.call(it.fields['__iter__'], [it], {})      # an iterable object of the contract: its items
        if not isinstance(it, (IterV, SeqV)) or kw:
            raise Unsupported('enumerate of %r' % (it,))
        return IterV(lambda t, _it=it: TupleV([IntV(t), _it.at(t)]), it.length, 'enumerate(%s)' % it.name)

    def _reversed(p, args, kw):
        (it,) = args
        if isinstance(it, (TupleV, ListV)):
            return ListV(list(reversed(it.items)))
        if not isinstance(it, SeqV):
            raise Unsupported('reversed of %r' % (it,))
        return IterV(lambda t, _it=it: _it.at(_it.length - 1 - t), it.length, 'reversed(%s)' % it.name)

    def _map(p, args, kw):
        f, it = args
        call = lambda x: p.interp.call(f, [x], {})
        if isinstance(it, ObjV) and '__iter__' in it.fields:
            it = p.interp.call(it.fields['__iter__'], [it], {})
        if isinstance(it, (TupleV, ListV)):
            return ListV([call(x) for x in it.items])
        if isinstance(it, (IterV, SeqV)):
            return IterV(lambda t: call(it.at(t)), it.length, 'map(%s)' % it.name)      # lazy: evaluated per element on demand
        raise Unsupported('map over %r' % (it,))

    def _zip(p, args, kw):
        if all(isinstance(a, (TupleV, ListV)) for a in args):
            return ListV([TupleV(list(t)) for t in zip(*[a.items for a in args])])
        raise Unsupported('zip of non-concrete sequences')

    def _range(p, args, kw):
        if len(args) == 1 and isinstance(args[0], IntV):
            return SeqV(lambda t: IntV(t), args[0].t, 'range')
        if len(args) == 2 and all(isinstance(a, IntV) for a in args):
            lo, hi = args[0].t, args[1].t
            n = p.fresh_int('range.len')       # no if-then-else terms inside sequence lengths (they end up in patterns)
            p.assume(And(n >= 0, Implies(hi >= lo, n == hi - lo), Implies(hi < lo, n == 0)))
            return SeqV(lambda t: IntV(lo + t), n, 'range')
        raise Unsupported('range with a step or non-int arguments')

    def _forall_items(p, it, t, body):
        """forall t. 0 <= t < len(it) -> body(it[t]).  When the items are known to be computed from the items of an underlying sequence at
        the positions t + shift (`index_shift`: the middle part of a starred unpacking, `_, *rest = row`), the bound variable is the
        position u = t + shift in that sequence -- the same statement for any shift, but its terms `row[u]` can be matched against
        the terms of the other facts about the row (`row[t + 1]` cannot: e-matching does not invert arithmetic).
        `body` gets the item as a thunk, so that it is evaluated inside `bound` (no path decision on the bound variable)."""
        from z3 import ForAll, simplify
        sh = getattr(it, 'index_shift', 0)
        if not sh:
            return ForAll([t], Implies(And(0 <= t, t < it.length), body(lambda: it.at(t))))
        return ForAll([t], Implies(And(sh <= t, t < it.length + sh), simplify(body(lambda: it.at(t - sh)))))

    def _all(p, args, kw):
        (it,) = args
        if isinstance(it, ObjV) and '__iter__' in it.fields:
            it = p.interp.call(it.fields['__iter__'], [it], {})      # an iterable object of the contract (a lazy map, a list object): its items
        if not isinstance(it, (IterV, SeqV)):
            raise Unsupported('all of %r' % (it,))
        from z3 import Bool, ForAll, Int as _Int
        n = next(p.eng.counter)
        res = Bool('all!%d' % n)
        w = _Int('all.w!%d' % n)
        t = _Int('all.t!%d' % n)
        from pyvc.engine import truthy
        # all(...) holds iff every element is truthy: (res -> forall t) and (not res -> a witness w)
        from pyvc.engine import bound
        p.assume(Implies(res, _forall_items(p, it, t, lambda item: bound(p, lambda: truthy(item())))))
        p.assume(Implies(Not(res), And(0 <= w, w < it.length, Not(bound(p, lambda: truthy(it.at(w)))))))
        return BoolV(res)

    def _any(p, args, kw):
        (it,) = args
        if isinstance(it, ObjV) and '__iter__' in it.fields:
            it = p.interp.call(it.fields['__iter__'], [it], {})      # an iterable object of the contract (a lazy map, a list object): its items
        if not isinstance(it, (IterV, SeqV)):
            raise Unsupported('any of %r' % (it,))
        from z3 import Bool, ForAll, Int as _Int
        n = next(p.eng.counter)
        res = Bool('any!%d' % n)
        w = _Int('any.w!%d' % n)
        t = _Int('any.t!%d' % n)
        from pyvc.engine import truthy
        # any(...) holds iff some element is truthy: (res -> a witness w) and (not res -> forall t: not truthy)
        from pyvc.engine import bound
        p.assume(Implies(res, And(0 <= w, w < it.length, bound(p, lambda: truthy(it.at(w))))))
        p.assume(Implies(Not(res), _forall_items(p, it, t, lambda item: Not(bound(p, lambda: truthy(item()))))))
        return BoolV(res)

    def _call_class(p, f, x):
        raise Unsupported('map with %r' % (f,))

    def _set(p, args, kw):
        if not args:
            o = ObjV('set', {}, name='set()')
            return o
        v = args[0]
        if isinstance(v, ObjV) and '__set__' in v.fields:
            return v.fields['__set__'].fn(p, [v], {})
        raise Unsupported('set of %r' % (v,))

    def _bool(p, args, kw):
        from pyvc.engine import truthy
        return BoolV(p.truth(args[0]) if args else False)

    def _getattr(p, args, kw):
        # getattr(o, 'name') with a literal name IS o.name (no default: the three-argument form is not modelled)
        if kw or len(args) != 2 or not (isinstance(args[1], StrV) and args[1].value is not None):
            raise Unsupported('getattr with a computed name or a default')
        return p.interp.getattr(args[0], args[1].value)

    def _setattr(p, args, kw):
        # setattr(o, 'name', v) with a literal name IS `o.name = v` (the same store hook / field as the statement)
        if kw or len(args) != 3 or not (isinstance(args[1], StrV) and args[1].value is not None):
            raise Unsupported('setattr with a computed name')
        p.interp.store_attr(args[0], args[1].value, args[2])
        return NONE

    def _dict(p, args, kw):
        # dict(k=v, ...) == {'k': v, ...} (same insertion order); other forms are given by the contracts that need them
        if args:
            raise Unsupported('dict() of a positional argument')
        from pyvc.engine import DictV
        return DictV(dict(kw))

    return {'getattr': FuncV('getattr', _getattr), 'setattr': FuncV('setattr', _setattr),
            'dict': FuncV('dict', _dict), 'bool': FuncV('bool', _bool), 'map': FuncV('map', _map), 'set': FuncV('set', _set), 'zip': FuncV('zip', _zip), 'range': FuncV('range', _range),
            'all': FuncV('all', _all), 'any': FuncV('any', _any),
            'enumerate': FuncV('enumerate', _enumerate), 'reversed': FuncV('reversed', _reversed),
            'isinstance': FuncV('isinstance', _isinstance), 'len': FuncV('len', _len), 'next': FuncV('next', _next),
            'tuple': FuncV('tuple', _tuple), 'list': FuncV('list', _list),
            'int': ClassV('int'), 'slice': ClassV('slice'), 'str': ClassV('str'),
            'True': BoolV(True), 'False': BoolV(False), 'None': NONE}
