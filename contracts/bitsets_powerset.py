"""bitsets.combos.shortlex / MemberBits.powerset under contract (C18 used to ASSUME: "powerset() yields every subset once").

combos.shortlex(start, other) with `other` = a list of atoms 2^p(0), ..., 2^p(m-1), p strictly increasing, none of them in `start`:
  proved   every set  start + (a subset of the atoms)  is yielded exactly once, `start` first, and the sequence of yielded sets is STRICTLY
           increasing in the documented short-lexicographic order
               less(a, b) := card(a) < card(b)  or  (card(a) = card(b) and a != b and bit(a, lo)),   lo = the lowest position where a, b differ
           (obligation `yield/shortlex-order` at every yield, against the ghost `last` = the set yielded before).  `less` is a strict total order
           (lemma.powerset.order: irreflexive, total, transitive), so with "every set once" the whole enumeration order is determined.

Ghost state: the deque as an array  Qc(i), Qs(i)  (set, index of the first remaining atom: `other` lists are suffixes of the atom list)
for head <= i < tail (FIFO: popleft = head+1, append = tail+1);  Y the yielded sets;  maxc the size of the largest set yielded so far.
  owns(cur, s, v)   v is a proper superset of cur within the family whose new members are atoms with index >= s
Outer invariant  A entries well-formed (no atom with index >= s in cur);  C every set of the family is yielded or owned by an entry;
                 D owners are unique and yielded sets have no owner;  S sizes along the queue never decrease and lie in [maxc-1, maxc]
Inner invariant  (entry (cur, s) popped, atoms s .. j-1 handled)  Y = Y0 + {cur+a_t | s <= t < j};  queue = queue0 + children (cur+a_t, t+1), t < min(j, m-1);
                 last = cur + a_(j-1) once j > s
Order            lessb(a, b, s) := less(a, b) where, for equal sizes, the lowest difference is moreover an atom with index < s (so that it lies
                 below every atom that can still be added to b when (b, s) is an entry: the order of two entries is inherited by their children)
                 O1 the queue is sorted: lessb(Qc(i), Qc(k), Qs(k)) for i < k;   O2 lessb(last, Qc(k) + a_t, t+1)  and
                 O3 lessb(Qc(i), Qc(k) + a_t, t+1)  for all entries i, k and atom indexes t >= Qs(k): `last` and every entry come before every
                 set still to be yielded.  O1-O3 are assumed under a trigger token and used by explicit instances only.
                 lemma.powerset.order: (i) siblings  cur + a_t  before  cur + a_u  for t < u;  (ii) cousins: lexb(c1, c2, s2) is inherited by
                 c1 + a_t1, c2 + a_t2;  no transitivity is needed for the invariants (all pairwise).
"""
from z3 import And, BoolSort, BoolVal, ForAll, Function, If, Implies, Int, IntSort, IntVal, Ints, MultiPattern, Not, Or

from pyvc import bits
from pyvc.bits import atomv, band, bit, bnot, bor, tz
from pyvc.engine import BoolV, FuncV, IntV, IterV, ListV, LoopSpec, NONE, ObjV, SeqV, TupleV, Unsupported
from contracts import lib
from contracts.bitsets_lib import LINK, site_file
from contracts.ctxtheory import SetPreds
from contracts.registry import Unit, register

I = IntSort()
B = BoolSort()
COMBOS, BASES = site_file('combos.py'), site_file('bases.py')


class PW:
    def __init__(self):
        self.m = Int('m')
        self.p = Function('atom.pos', I, I)
        self.idx = Function('atom.idx', I, I)
        self.s0 = Int('start')
        self.sets = SetPreds()
        self.sub = self.sets.subset
        self.newfrom = Function('newfrom', I, I, I, B)       # newfrom(cur, v, s): every member of v outside cur is an atom position with index >= s
        self.w_new = Function('w.newfrom', I, I, I, I)
        self.card = Function('card', I, I)

    def isatom(self, k):
        return And(0 <= self.idx(k), self.idx(k) < self.m, self.p(self.idx(k)) == k)

    def family(self, v):
        """v = start + a set of atoms"""
        return And(v >= 0, self.sub(self.s0, v), self.newfrom(self.s0, v, 0))

    def owns(self, cur, s, v):
        return And(self.family(v), self.sub(cur, v), v != cur, self.newfrom(cur, v, s))

    def wf(self, cur, s):
        t = Int('t')
        return And(self.family(cur), 0 <= s, s <= self.m,
                   ForAll([t], Implies(And(s <= t, t < self.m), Not(bit(cur, self.p(t)))), patterns=[self.p(t)]))

    def child(self, cur, t):
        return bor(cur, atomv(self.p(t)))

    def axioms(self):
        t, u, k, c, v, s, x = Ints('t u k c v s x')
        T = self
        return bits.axioms() + self.sets.axioms() + [
            ('atoms.len', T.m >= 0),
            ('start', T.s0 >= 0),
            ('atoms.pos', ForAll([t], Implies(And(0 <= t, t < T.m), And(T.p(t) >= 0, T.idx(T.p(t)) == t, Not(bit(T.s0, T.p(t))))), patterns=[T.p(t)])),
            ('atoms.increasing', ForAll([t, u], Implies(And(0 <= t, t < u, u < T.m), T.p(t) < T.p(u)), patterns=[MultiPattern(T.p(t), T.p(u))])),
            ('newfrom.elim', ForAll([c, v, s, k], Implies(And(T.newfrom(c, v, s), bit(v, k), Not(bit(c, k))), And(T.isatom(k), T.idx(k) >= s)),
                                    patterns=[MultiPattern(T.newfrom(c, v, s), bit(v, k))])),
            ('newfrom.intro', ForAll([c, v, s], Implies(Not(T.newfrom(c, v, s)),
                                                        And(bit(v, T.w_new(c, v, s)), Not(bit(c, T.w_new(c, v, s))),
                                                            Not(And(T.isatom(T.w_new(c, v, s)), T.idx(T.w_new(c, v, s)) >= s)))),
                                     patterns=[T.newfrom(c, v, s)])),
            # size of a set with one new member (lemmas/BitsBin.lean: card_insert; Finset.card_insert_of_notMem at the level of the bits)
            ('card.insert', ForAll([c, x], Implies(And(c >= 0, x >= 0, Not(bit(c, x))), T.card(bor(c, atomv(x))) == T.card(c) + 1),
                                   patterns=[T.card(bor(c, atomv(x)))])),
        ]

    # ---- the short-lexicographic order (size, then member positions: the set that owns the lowest differing position comes first)
    def lo(self, a, b):
        """the lowest position at which a and b differ (for a != b)"""
        return tz(bor(band(a, bnot(b)), band(b, bnot(a))))

    def lexless(self, a, b):
        return And(a != b, bit(a, self.lo(a, b)))

    def less(self, a, b):
        """the documented order of combos.shortlex"""
        return Or(self.card(a) < self.card(b), And(self.card(a) == self.card(b), self.lexless(a, b)))

    def lexb(self, a, b, s):
        """lexless(a, b) for sets of the family, with a bound: the lowest difference is an atom with index below s
        (below every atom that may still be added to b when (b, s) is an entry)"""
        d = self.lo(a, b)
        return And(a != b, bit(a, d), Not(bit(b, d)), self.isatom(d), self.idx(d) < s)

    def lessb(self, a, b, s):
        return Or(self.card(a) < self.card(b), And(self.card(a) == self.card(b), self.lexb(a, b, s)))

    def st_card(self, cur, s, t):
        return Implies(And(self.wf(cur, s), s <= t, t < self.m), self.card(self.child(cur, t)) == self.card(cur) + 1)

    def st_siblings(self, cur, s, t, u):
        """(i) two children of one entry: the one for the earlier atom comes first"""
        T = self
        return Implies(And(T.wf(cur, s), s <= t, t < u, u < T.m),
                       And(T.card(T.child(cur, t)) == T.card(cur) + 1, T.card(T.child(cur, u)) == T.card(cur) + 1,
                           T.lexb(T.child(cur, t), T.child(cur, u), u + 1)))

    def st_cousins(self, c1, s1, t1, c2, s2, t2):
        """(ii) children of two entries inherit the order of their parents"""
        T = self
        return Implies(And(T.wf(c1, s1), T.wf(c2, s2), s1 <= t1, t1 < T.m, s2 <= t2, t2 < T.m, T.lexb(c1, c2, s2)),
                       T.lexb(T.child(c1, t1), T.child(c2, t2), t2 + 1))

    # ---- lemma statements
    def st_child_exists(self, cur, s, v):
        T = self
        pos = tz(band(v, bnot(cur)))
        t = T.idx(pos)
        ch = bor(cur, atomv(pos))
        return Implies(And(T.wf(cur, s), T.owns(cur, s, v)),
                       And(s <= t, t < T.m, T.p(t) == pos, T.wf(ch, t + 1), Or(v == ch, T.owns(ch, t + 1, v))))

    def st_child_inside(self, cur, s, t, v):
        T = self
        ch = T.child(cur, t)
        return Implies(And(T.wf(cur, s), s <= t, t < T.m, Or(v == ch, And(T.wf(ch, t + 1), T.owns(ch, t + 1, v)))),
                       And(T.owns(cur, s, v), T.idx(tz(band(v, bnot(cur)))) == t, T.wf(ch, t + 1), T.family(ch)))

    def st_leaf(self, cur, v):
        T = self
        return Implies(T.wf(cur, T.m), Not(T.owns(cur, T.m, v)))


def _lemmas():
    T = PW()

    def prove(path):
        cur, s, v, t = Ints('cur s v t')
        # ---- child-inside
        n0 = len(path.pc)
        ch = T.child(cur, t)
        path.assume(And(T.wf(cur, s), s <= t, t < T.m))
        path.oblige('child/family', 'lemma', T.family(ch))
        path.oblige('child/wf', 'lemma', T.wf(ch, t + 1))
        path.assume(Or(v == ch, And(T.wf(ch, t + 1), T.owns(ch, t + 1, v))))
        x = band(v, bnot(cur))
        path.oblige('inside/cur-below-v', 'lemma', And(T.sub(cur, v), v != cur, bit(v, T.p(t))))
        path.oblige('inside/family', 'lemma', T.family(v))
        path.oblige('inside/newfrom', 'lemma', T.newfrom(cur, v, s))
        path.oblige('inside/first-new-member', 'lemma', And(x != 0, tz(x) == T.p(t)))
        path.oblige('child-inside', 'lemma', T.st_child_inside(cur, s, t, v))
        del path.pc[n0:]
        # ---- child-exists
        path.assume(And(T.wf(cur, s), T.owns(cur, s, v)))
        x = band(v, bnot(cur))
        pos = tz(x)
        path.assume(bits.ext_instance(v, cur, path.fresh_int('wext')))
        path.oblige('exists/difference-nonempty', 'lemma', x != 0)
        path.oblige('exists/first-new-member', 'lemma', And(bit(v, pos), Not(bit(cur, pos)), pos >= 0))
        ti = T.idx(pos)
        path.oblige('exists/is-an-atom', 'lemma', And(s <= ti, ti < T.m, T.p(ti) == pos))
        ch2 = bor(cur, atomv(pos))
        path.oblige('exists/child-below-v', 'lemma', T.sub(ch2, v))
        path.assume(T.st_child_inside(cur, s, ti, ch2))
        path.oblige('exists/child-wf', 'lemma', T.wf(ch2, ti + 1))
        path.oblige('exists/rest-is-new-from-t+1', 'lemma', T.newfrom(ch2, v, ti + 1))
        path.oblige('child-exists', 'lemma', T.st_child_exists(cur, s, v))
        del path.pc[n0:]
        path.assume(bits.ext_instance(v, cur, path.fresh_int('wext')))
        path.oblige('leaf', 'lemma', T.st_leaf(cur, v))
    return T.axioms(), prove


register(Unit('lemma.powerset.tree', None, None, _lemmas, assumptions=['BITS theory, definitions of family / owns / wf (contracts/bitsets_powerset.py)']))


def _order_lemmas():
    T = PW()

    def prove(path):
        cur, s, t, u, c1, s1, t1, c2, s2, t2 = Ints('cur s t u c1 s1 t1 c2 s2 t2')
        n0 = len(path.pc)

        def suppose(st):
            """the hypothesis of the statement `st` (an implication), taken from the statement itself"""
            del path.pc[n0:]
            path.assume(st.arg(0))
            return st
        # ---- size of a child
        st = suppose(T.st_card(cur, s, t))
        path.oblige('card/new-member', 'lemma', And(cur >= 0, T.p(t) >= 0, Not(bit(cur, T.p(t)))))
        path.oblige('card', 'lemma', st)
        # ---- (i) siblings
        st = suppose(T.st_siblings(cur, s, t, u))
        a, b = T.child(cur, t), T.child(cur, u)
        path.assume([T.st_card(cur, s, t), T.st_card(cur, s, u)])
        path.oblige('siblings/positions', 'lemma', And(T.p(t) < T.p(u), bit(a, T.p(t)), Not(bit(b, T.p(t))), T.isatom(T.p(t))))
        path.oblige('siblings/lowest-difference', 'lemma', T.lo(a, b) == T.p(t))
        path.oblige('siblings', 'lemma', st)
        # ---- (ii) cousins
        st = suppose(T.st_cousins(c1, s1, t1, c2, s2, t2))
        d = T.lo(c1, c2)
        a, b = T.child(c1, t1), T.child(c2, t2)
        path.oblige('cousins/difference-is-an-earlier-atom', 'lemma', And(T.idx(d) < s1, T.idx(d) < s2, 0 <= T.idx(d), T.p(T.idx(d)) == d))
        path.oblige('cousins/difference-below-the-new-members', 'lemma', And(d < T.p(t1), d < T.p(t2)))
        path.oblige('cousins/children-differ-there', 'lemma', And(bit(a, d), Not(bit(b, d))))
        path.oblige('cousins/lowest-difference', 'lemma', T.lo(a, b) == d)
        path.oblige('cousins', 'lemma', st)
        del path.pc[n0:]
        # ---- the bounded form is the documented order
        path.oblige('bounded-form-is-the-order', 'lemma', Implies(T.lessb(c1, c2, s), T.less(c1, c2)))
        # ---- `less` is a strict total order on the naturals (so "strictly increasing" + "every set once" determine the whole sequence)
        a, b, c = Ints('a b c')
        path.assume(And(a >= 0, b >= 0, c >= 0))
        sd = lambda x, y: bor(band(x, bnot(y)), band(y, bnot(x)))
        path.assume([bits.ext_instance(x, y, path.fresh_int('wext')) for x, y in ((a, b), (b, c), (a, c), (sd(a, b), sd(b, a)))])
        path.oblige('order/differing-position', 'lemma', Implies(a != b, And(sd(a, b) != 0, bit(a, T.lo(a, b)) != bit(b, T.lo(a, b)))))
        path.oblige('order/lowest-difference-is-symmetric', 'lemma', T.lo(a, b) == T.lo(b, a))
        path.oblige('order/total', 'lemma', Implies(a != b, T.lexless(a, b) != T.lexless(b, a)))
        H = And(T.lexless(a, b), T.lexless(b, c))
        d1, d2 = T.lo(a, b), T.lo(b, c)
        d = If(d1 < d2, d1, d2)
        path.oblige('order/transitive: the lower of the two differences', 'lemma', Implies(H, And(a != c, bit(a, d), Not(bit(c, d)), d1 != d2)))
        path.oblige('order/transitive: lowest difference of the outer pair', 'lemma', Implies(H, T.lo(a, c) == d))
        path.oblige('order/transitive', 'lemma', Implies(H, T.lexless(a, c)))
        path.oblige('order/strict-total', 'lemma', And(Not(T.less(a, a)), Or(a == b, T.less(a, b), T.less(b, a)), Not(And(T.less(a, b), T.less(b, a))),
                                                       Implies(And(T.less(a, b), T.less(b, c)), T.less(a, c))))
    return T.axioms(), prove


register(Unit('lemma.powerset.order', None, None, _order_lemmas,
              assumptions=['BITS theory, definitions of wf / lexb (contracts/bitsets_powerset.py)', 'card(c + {x}) = card(c) + 1 for x not in c (Lean: lemmas/BitsBin.lean card_insert, i.e. Finset.card_insert_of_notMem at the level of the bits)']))


# ---------------------------------------------------------------------------------------------------------------------
# combos.shortlex(start, other, excludestart=False)

def _shortlex_unit():
    def make():
        T = PW()
        axioms = T.axioms()
        m, p, s0 = T.m, T.p, T.s0

        def harness(path):
            cnt = path.eng.counter

            def fn(name, n, rng=I):
                return Function('%s!%d' % (name, next(cnt)), *([I] * n + [rng]))
            G = path.ghost
            i_, v_, t_ = Ints('i_ v_ t_')
            st = {'head': IntVal(0), 'tail': IntVal(0), 'Qc': fn('Qc', 1), 'Qs': fn('Qs', 1), 'Y': fn('Y', 1, B), 'maxc': T.card(s0),
                  'last': IntVal(0), 'has': BoolVal(False)}       # the set yielded last, if any
            hb = Function('hint!%d' % next(cnt), B, B)
            path.assume(ForAll([v_], Not(st['Y'](v_)), patterns=[st['Y'](v_)]))
            excl = path.fresh_bool('excludestart')

            def inq(i):
                return And(st['head'] <= i, i < st['tail'])

            # ---- `other` lists: suffixes of the atom list
            def suffix(s):
                o = ObjV('AtomSuffix', {}, name='other')
                o.s = s
                o.truth_fn = lambda: s < m

                def getitem(pp, a, kw):
                    i = a[-1]
                    pp.oblige('index@other', 'index', And(i.t == 0, s < m) if isinstance(i, IntV) else BoolVal(False))
                    G['first'] = s
                    return IntV(atomv(p(s)), 'Bits')
                o.fields['__getitem__'] = FuncV('list.__getitem__', getitem)

                def getslice(interp, env, obj, sl):
                    lo = interp.eval(sl.lower, env) if sl.lower is not None else None
                    ok = lo is not None and sl.upper is None and sl.step is None and isinstance(lo, IntV)
                    interp.path.oblige('slice@other', 'index', (lo.t == 1) if ok else BoolVal(False))
                    return suffix(If(s < m, s + 1, s))          # python clamps the slice of an empty list
                o.fields['__getslice__'] = getslice
                return o

            # ---- the deque
            queue = ObjV('deque', {}, name='queue')
            queue.truth_fn = lambda: st['head'] < st['tail']

            def push(pp, cur, s, left=False):
                Qc, Qs = fn('Qc', 1), fn('Qs', 1)
                at = st['head'] - 1 if left else st['tail']
                pp.assume(ForAll([i_], Qc(i_) == If(i_ == at, cur, st['Qc'](i_)), patterns=[Qc(i_)]))
                pp.assume(ForAll([i_], Qs(i_) == If(i_ == at, s, st['Qs'](i_)), patterns=[Qs(i_)]))
                st.update(Qc=Qc, Qs=Qs)
                if left:
                    st['head'] = at
                else:
                    st['tail'] = at + 1

            def deque(pp, a, kw):
                (lst,) = a
                ok = isinstance(lst, ListV) and len(lst.items) == 1 and isinstance(lst.items[0], TupleV) and len(lst.items[0].items) == 2 \
                    and isinstance(lst.items[0].items[0], IntV) and getattr(lst.items[0].items[1], 'cls', None) == 'AtomSuffix'
                pp.oblige('deque/initial-entry', 'pre@call', BoolVal(ok))
                if ok:
                    push(pp, lst.items[0].items[0].t, lst.items[0].items[1].s)
                return queue

            def pop_at(left):
                def pop(pp, a, kw):
                    pp.oblige('%s/non-empty' % ('popleft' if left else 'pop'), 'pre@call', st['head'] < st['tail'])
                    h = st['head'] if left else st['tail'] - 1
                    cur, s = st['Qc'](h), st['Qs'](h)
                    G['cur'] = (cur, s, h)
                    G['at_pop'] = dict(st)
                    if left:
                        st['head'] = h + 1
                    else:
                        st['tail'] = h
                    return TupleV([IntV(cur, 'Bits'), suffix(s)])
                return pop

            def append_at(left):
                def append(pp, a, kw):
                    (e,) = a
                    ok = isinstance(e, TupleV) and len(e.items) == 2 and isinstance(e.items[0], IntV) and getattr(e.items[1], 'cls', None) == 'AtomSuffix'
                    pp.oblige('append/entry-shape', 'pre@call', BoolVal(ok))
                    if ok:
                        push(pp, e.items[0].t, e.items[1].s, left)
                    return NONE
                return append
            # both ends of the deque are modelled; the invariants below are those of the FIFO use (popleft / append)
            queue.fields['popleft'] = FuncV('deque.popleft', pop_at(True))
            queue.fields['pop'] = FuncV('deque.pop', pop_at(False))
            queue.fields['append'] = FuncV('deque.append', append_at(False))
            queue.fields['appendleft'] = FuncV('deque.appendleft', append_at(True))
            collections = ObjV('module', {'deque': FuncV('collections.deque', deque)}, name='collections')

            def on_yield(pp, env_, val):
                ok = isinstance(val, IntV)
                pp.oblige('yield/a-set-of-the-family', 'yield', T.family(val.t) if ok else BoolVal(False))
                if not ok:
                    return
                pp.oblige('yield/exactly-once: not yielded before', 'yield', Not(st['Y'](val.t)))
                pp.oblige('yield/shortest-first: size not below the sizes yielded before', 'yield', T.card(val.t) >= st['maxc'])
                if G.get('cur') is not None and G.get('first') is not None:
                    # the first set of an entry: after `last` by invariant O2 for the entry; a later one: after its elder sibling (i)
                    c0, s_e, h = G['cur']
                    j = G['first']
                    use(pp, 'O2', h, s_e)
                    pp.assume([T.st_siblings(c0, s_e, j - 1, j), T.st_card(c0, s_e, j)])
                    pp.oblige('yield/shortlex-order (bounded form)', 'yield', Implies(st['has'], T.lessb(st['last'], val.t, j + 1)))
                pp.oblige('yield/shortlex-order: after the set yielded before (smaller, or same size and owner of the lowest differing position)', 'yield',
                          Implies(st['has'], T.less(st['last'], val.t)))
                Y2 = fn('Y', 1, B)
                pp.assume(ForAll([v_], Y2(v_) == Or(v_ == val.t, st['Y'](v_)), patterns=[Y2(v_), st['Y'](v_)]))
                st['Y'] = Y2
                st['maxc'] = T.card(val.t)
                st['last'], st['has'] = val.t, BoolVal(True)
                G['yielded_start'] = G.get('yielded_start') or val.t.eq(s0)

            # ---- invariants
            def q(phase, vs, body, pats):
                if phase == 'assume':
                    return ForAll(vs, body(*vs), patterns=pats(*vs)), None
                cs = [path.fresh_int(str(v)) for v in vs]
                return body(*cs), cs

            def qtok(phase, name, vs, body):
                """an invariant that is used by explicit instances only: where it is assumed its trigger is a token that occurs nowhere else"""
                if phase == 'assume':
                    tok = G['tok.' + name] = fn('use.' + name, len(vs), B)
                    return ForAll(vs, body(*vs), patterns=[tok(*vs)]), None
                cs = [path.fresh_int(str(v)) for v in vs]
                return body(*cs), cs

            def use(pp, name, *args):
                """instance of the invariant `name` of the outer loop (as assumed at the current pop) for the given terms"""
                if ('tok.' + name) in G:
                    pp.assume(hb(G['tok.' + name](*args)))

            def outer(e, phase):
                Qc, Qs, Y, head, tail, maxc = st['Qc'], st['Qs'], st['Y'], st['head'], st['tail'], st['maxc']
                last, has = st['last'], st['has']
                cur = G.get('cur') if phase == 'preserve' else None
                out = [('Q pointers', And(0 <= head, head <= tail))]
                f, cs = q(phase, [i_], lambda i: Implies(inq(i), T.wf(Qc(i), Qs(i))), lambda i: [Qc(i), Qs(i)])
                if cs and cur:
                    # two cases, each with its own instance: an entry that was on the queue at the pop, or a child pushed by this iteration
                    t0 = G['at_pop']['tail']
                    tch = cs[0] - t0 + cur[1]
                    path.assume(T.st_child_inside(cur[0], cur[1], tch, IntVal(0)))
                    zq = G['at_pop']
                    out.append(('A entries well-formed (kept entries)', Implies(And(inq(cs[0]), cs[0] < t0), And(Qc(cs[0]) == zq['Qc'](cs[0]), Qs(cs[0]) == zq['Qs'](cs[0]),
                                                                                                                     T.wf(zq['Qc'](cs[0]), zq['Qs'](cs[0]))))))
                    out.append(('A entries well-formed (children)', Implies(And(inq(cs[0]), cs[0] >= t0), And(Qc(cs[0]) == T.child(cur[0], tch), Qs(cs[0]) == tch + 1,
                                                                                                                 T.wf(T.child(cur[0], tch), tch + 1)))))
                out.append(('A entries well-formed', f))
                # C coverage
                if phase == 'assume':
                    own = fn('own', 1)
                    G['own'] = own
                    out.append(('C coverage', ForAll([v_], Implies(And(T.family(v_), Or(v_ != s0, Not(excl))),
                                                                  Or(Y(v_), And(inq(own(v_)), T.owns(Qc(own(v_)), Qs(own(v_)), v_)))), patterns=[Y(v_)])))
                elif phase == 'entry':
                    v = path.fresh_int('v')
                    path.assume(bits.ext_instance(v, s0, path.fresh_int('wext')))
                    out.append(('C coverage', Implies(And(T.family(v), Or(v != s0, Not(excl))), Or(Y(v), And(inq(head), T.owns(Qc(head), Qs(head), v))))))
                else:
                    v = path.fresh_int('v')
                    c0, s_e, h = cur
                    own = G['own']
                    pos = tz(band(v, bnot(c0)))
                    tch = T.idx(pos)
                    ich = G['at_pop']['tail'] + (tch - s_e)          # queue position of the child pushed for atom index tch
                    path.assume([T.st_child_exists(c0, s_e, v), T.st_leaf(bor(c0, atomv(pos)), v), T.st_child_inside(c0, s_e, tch, v)])
                    out.append(('C coverage', Implies(And(T.family(v), Or(v != s0, Not(excl))),
                                                      Or(Y(v), And(inq(own(v)), T.owns(Qc(own(v)), Qs(own(v)), v)),
                                                         And(inq(ich), T.owns(Qc(ich), Qs(ich), v))))))
                # D uniqueness
                f, cs = q(phase, [v_, i_], lambda v, i: Implies(And(inq(i), T.owns(Qc(i), Qs(i), v)), Not(Y(v))),
                          lambda v, i: [MultiPattern(T.newfrom(Qc(i), v, Qs(i)), Y(v))])
                if cs and cur:
                    path.assume([T.st_child_inside(cur[0], cur[1], cs[1] - G['at_pop']['tail'] + cur[1], cs[0]),
                                 T.st_child_inside(cur[0], cur[1], T.idx(tz(band(cs[0], bnot(cur[0])))), cs[0])])
                out.append(('D1 yielded sets have no owner', f))
                f, cs = q(phase, [v_, i_, t_], lambda v, i, j: Implies(And(inq(i), inq(j), T.owns(Qc(i), Qs(i), v), T.owns(Qc(j), Qs(j), v)), i == j),
                          lambda v, i, j: [MultiPattern(T.newfrom(Qc(i), v, Qs(i)), T.newfrom(Qc(j), v, Qs(j)))])
                if cs and cur:
                    for c in cs[1:]:
                        path.assume(T.st_child_inside(cur[0], cur[1], c - G['at_pop']['tail'] + cur[1], cs[0]))
                out.append(('D2 owners are unique', f))
                f, cs = q(phase, [i_], lambda i: Implies(inq(i), Not(Y(Qc(i)))) if False else Implies(inq(i), BoolVal(True)), lambda i: [Qc(i)])
                # S sizes
                f, cs = q(phase, [i_, t_], lambda i, j: Implies(And(inq(i), inq(j), i <= j), T.card(Qc(i)) <= T.card(Qc(j))),
                          lambda i, j: [MultiPattern(Qc(i), Qc(j))])
                out.append(('S1 sizes along the queue never decrease', f))
                f, cs = q(phase, [i_], lambda i: Implies(inq(i), And(T.card(Qc(i)) <= maxc, maxc <= T.card(Qc(i)) + 1)), lambda i: [Qc(i)])
                out.append(('S2 sizes within one of the largest yielded', f))
                if phase != 'entry':
                    out.append(('Y0 start yielded unless excluded', Y(s0) == Not(excl)))
                # ---- the order.  O1 the queue is sorted;  O2/O3 `last` and every entry come before every set still to be yielded for an entry
                u_ = Int('u_')
                zq = G.get('at_pop')
                if cur:
                    c0, s_e, h = cur
                    t0 = zq['tail']
                    ati = lambda i: i - t0 + s_e          # the atom index of the child at queue position i >= t0
                    wfc = lambda u: T.st_child_inside(c0, s_e, u, IntVal(0))      # wf of the child for atom index u
                f, cs = qtok(phase, 'O1', [i_, t_], lambda i, k: Implies(And(inq(i), inq(k), i < k), T.lessb(Qc(i), Qc(k), Qs(k))))
                if cs and cur:
                    i, k = cs
                    use(path, 'O1', i, k)
                    use(path, 'O3', i, h, ati(k))
                    path.assume(T.st_siblings(c0, s_e, ati(i), ati(k)))
                out.append(('O1 the queue is sorted (size, then position of the members)', f))
                f, cs = qtok(phase, 'O2', [i_, t_], lambda k, t: Implies(And(has, inq(k), Qs(k) <= t, t < m), T.lessb(last, T.child(Qc(k), t), t + 1)))
                if phase == 'entry':
                    path.assume(T.st_card(s0, IntVal(0), cs[1]))
                if cs and cur:
                    k, t = cs
                    use(path, 'O2', k, t)
                    use(path, 'O1', h, k)
                    path.assume([T.st_cousins(c0, s_e, m - 1, zq['Qc'](k), zq['Qs'](k), t), T.st_card(c0, s_e, m - 1), T.st_card(zq['Qc'](k), zq['Qs'](k), t),
                                 wfc(ati(k)), T.st_card(c0, s_e, ati(k)), T.st_card(T.child(c0, ati(k)), ati(k) + 1, t)])
                out.append(('O2 the set yielded last comes before every set still to be yielded', f))
                f, cs = qtok(phase, 'O3', [i_, t_, u_], lambda i, k, t: Implies(And(inq(i), inq(k), Qs(k) <= t, t < m), T.lessb(Qc(i), T.child(Qc(k), t), t + 1)))
                if phase == 'entry':
                    path.assume(T.st_card(s0, IntVal(0), cs[2]))
                if cs and cur:
                    i, k, t = cs
                    use(path, 'O3', i, k, t)
                    use(path, 'O1', h, k)
                    path.assume([T.st_cousins(c0, s_e, ati(i), zq['Qc'](k), zq['Qs'](k), t), T.st_card(c0, s_e, ati(i)), T.st_card(zq['Qc'](k), zq['Qs'](k), t),
                                 wfc(ati(k)), T.st_card(c0, s_e, ati(k)), T.st_card(T.child(c0, ati(k)), ati(k) + 1, t)])
                out.append(('O3 every entry comes before every set still to be yielded', f))
                return out
            outer_spec = LoopSpec(outer, phased=True,
                                  ghost_havoc=lambda pp, env_: st.update(head=pp.fresh_int('head'), tail=pp.fresh_int('tail'), Qc=fn('Qc', 1), Qs=fn('Qs', 1),
                                                                         Y=fn('Y', 1, B), maxc=pp.fresh_int('maxc'),
                                                                         last=pp.fresh_int('last'), has=pp.fresh_bool('has')))
            outer_spec.modifies = ['queue']

            def inner(e, phase):
                c0, s_e, h = G['cur']
                if phase == 'entry':
                    G['st0'] = dict(st)
                z = G['st0']
                oth = e.val('other')
                j = oth.s
                Qc, Qs, Y = st['Qc'], st['Qs'], st['Y']
                npush = If(j <= m - 1, j, m - 1) - s_e            # children pushed so far: for atom indexes s_e .. min(j, m-1) - 1
                out = [('j range', And(s_e <= j, j <= m)),
                       ('head unchanged', st['head'] == z['head']),
                       ('tail', st['tail'] == z['tail'] + If(npush >= 0, npush, 0))]
                f, cs = q(phase, [i_], lambda i: And(Implies(i < z['tail'], And(Qc(i) == z['Qc'](i), Qs(i) == z['Qs'](i))),
                                                     Implies(And(z['tail'] <= i, i < st['tail']),
                                                             And(Qc(i) == T.child(c0, s_e + (i - z['tail'])), Qs(i) == s_e + (i - z['tail']) + 1))),
                          lambda i: [Qc(i)])
                out.append(('queue = queue at pop + children', f))
                f, cs = q(phase, [v_], lambda v: Y(v) == Or(z['Y'](v), And(s_e <= T.idx(tz(band(v, bnot(c0)))), T.idx(tz(band(v, bnot(c0)))) < j,
                                                                             v == T.child(c0, T.idx(tz(band(v, bnot(c0))))), T.sub(c0, v), v != c0)),
                          lambda v: [Y(v)])
                if cs and phase == 'preserve':
                    path.assume(T.st_child_inside(c0, s_e, j - 1, cs[0]))
                    path.assume(T.st_child_inside(c0, s_e, j - 1, T.child(c0, j - 1)))
                out.append(('Y = Y at pop + sets yielded for the handled atoms', f))
                out.append(('maxc', st['maxc'] == If(j > s_e, T.card(c0) + 1, z['maxc'])))
                out.append(('last', And(st['last'] == If(j > s_e, T.child(c0, j - 1), z['last']), st['has'] == Or(j > s_e, z['has']))))
                return out

            def inner_havoc(pp, env_):
                st.update(tail=pp.fresh_int('tail'), Qc=fn('Qc', 1), Qs=fn('Qs', 1), Y=fn('Y', 1, B), maxc=pp.fresh_int('maxc'),
                          last=pp.fresh_int('last'), has=pp.fresh_bool('has'))
            inner_spec = LoopSpec(inner, phased=True, ghost_havoc=inner_havoc)

            def use_lemmas(pp, e):
                c0, s_e, h = G['cur']
                j = G.get('first')          # the atom index of `first` (`other` has been advanced already)
                if j is not None:
                    pp.assume([T.st_child_inside(c0, s_e, j, T.child(c0, j)), T.st_child_inside(c0, s_e, j, IntVal(0))])
            other0 = suffix(IntVal(0))
            loops = {'globals': dict(lib.builtins(), collections=collections), 0: outer_spec, 1: inner_spec, 'on_yield': on_yield,
                     'havoc_queue': lambda pp, cur: queue, 'havoc_other': lambda pp, cur: suffix(pp.fresh_int('j')),
                     'havoc_current': lambda pp, cur: NONE, 'before_assign_to': {'result': use_lemmas}}

            def finish(path, env_, outcome):
                if outcome[0] != 'return':
                    path.oblige('post/no-exception', 'post', BoolVal(False))
                    return
                v = path.fresh_int('v')
                Y = st['Y']
                path.oblige('post/every set of the family has been yielded (start unless excluded)', 'post',
                            Implies(And(T.family(v), Or(v != s0, Not(excl))), Y(v)))
            return {'start': IntV(s0, 'Bits'), 'other': other0, 'excludestart': BoolV(excl)}, loops, finish
        return axioms, harness
    return make


if COMBOS:
    register(Unit('bitsets.combos.shortlex', COMBOS, 'shortlex', _shortlex_unit(),
                  assumptions=['requires other = a list of atoms with strictly increasing positions, none of them in start (what MemberBits.powerset passes: unit bitsets.MemberBits.powerset)',
                               'collections.deque is FIFO (array model head/tail); list slicing other[1:] = the suffix',
                               'card(c + {x}) = card(c) + 1 for x not in c (Lean: lemmas/BitsBin.lean card_insert, i.e. Finset.card_insert_of_notMem at the level of the bits)',
                               'siblings / cousins / card instances: lemma.powerset.order', 'termination not proved'],
                  linkage=[(LINK + 'combos.shortlex', None)], max_paths=600))


# ---------------------------------------------------------------------------------------------------------------------
# MemberBits.powerset(start=None): map(frombitset, combos.shortlex(infimum, list(self.atoms())))

def _powerset_unit():
    def make():
        def harness(path):
            calls = []
            x = Int('self0')
            path.assume(x >= 0)
            atoms_obj = ObjV('Atoms', {}, name='self.atoms()')
            lists = []

            def list_(pp, a, kw):
                l = ObjV('list', {'of': a[0]}, name='list(...)')
                lists.append(l)
                return l

            def shortlex(pp, a, kw):
                r = ObjV('Generator', {}, name='combos.shortlex(...)')
                calls.append((list(a), dict(kw), r))
                return r

            def map_(pp, a, kw):
                r = ObjV('map', {'f': a[0], 'of': a[1]}, name='map(...)')
                return r
            frombitset = FuncV('frombitset', lambda pp, a, kw: a[-1])
            meths = {('Bits', 'infimum'): _prop(lambda pp, a, kw: IntV(IntVal(0), 'Bits')),
                     ('Bits', 'atoms'): FuncV('atoms', lambda pp, a, kw: atoms_obj if (len(a) == 1 and not kw) else NONE),
                     ('Bits', 'frombitset'): _prop(lambda pp, a, kw: frombitset)}
            combos = ObjV('module', {'shortlex': FuncV('combos.shortlex', shortlex)}, name='combos')
            g = dict(lib.builtins(), list=FuncV('list', list_), map=FuncV('map', map_), combos=combos)

            def finish(path, env, outcome):
                r = outcome[1] if outcome[0] == 'return' else None
                ok = getattr(r, 'cls', None) == 'map' and len(calls) == 1 and r.fields['of'] is calls[0][2] and r.fields['f'] is frombitset
                path.oblige('post/the-generator-mapped-through-frombitset', 'post', BoolVal(bool(ok)))
                if ok:
                    a, kw, _ = calls[0]
                    good = len(a) == 2 and not kw and isinstance(a[0], IntV) and a[1] in lists and a[1].fields['of'] is atoms_obj
                    path.oblige('post/shortlex(infimum, list(self.atoms()))', 'post', (a[0].t == 0) if good else BoolVal(False))
            from pyvc.engine import NONE as _N
            return {'self': IntV(x, 'Bits'), 'start': _N, 'excludestart': BoolV(False)}, {'int_methods': meths, 'globals': g}, finish
        return bits.axioms(), harness
    return make


def _prop(fn):
    f = FuncV('property', fn)
    f.is_property = True
    return f


if BASES:
    register(Unit('bitsets.MemberBits.powerset', BASES, 'MemberBits.powerset', _powerset_unit(),
                  assumptions=['requires start is None (how concepts calls it)', 'self.atoms() = the atoms of the members, ascending (unit bitsets.MemberBits.atoms): '
                               'the precondition of combos.shortlex with start = 0', 'frombitset is int.__new__ (identity on the value)'],
                  linkage=[(LINK + 'bases.MemberBits.powerset', None)]))
