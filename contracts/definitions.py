"""Contracts for concepts/definitions.py (C13, C14): every mutator against the ordered-table view.

View of a definition d:  O = items(d._objects), P = items(d._properties) : Seq ;  C = d._pairs : set of pairs.
  WF(d):   nodup(O), nodup(P), the Unique objects and the pair set are distinct heap objects (by construction),
           INV: C[o,p] -> mem(O,o) /\\ mem(P,p)      (no residue of removed/renamed names)
The Unique methods are used through their contracts (units tools.Unique.*, stdlib.MutableSet.*): at this level a Unique is
its item sequence.  The model operations are those of the property statement / DESIGN table (C13): new names appended in
the order given (fold_add), a set of true cells; a rejected call raises and leaves the view unchanged.
"""
from z3 import And, BoolVal, Const, ForAll, Function, If, Implies, Int, IntSort, MultiPattern, Not, Or, Select, Store

from pyvc import bits, seqs
from pyvc.seqs import Name, PSet, Seq, add1, fold_add, mem, nodup
from pyvc.engine import (BoolV, ClassV, CompView, FuncV, IntV, IterV, LoopSpec, NONE, ObjV, PyRaise, SeqV, TermV, TupleV, Unsupported,
                         truthy)
from contracts import lib
from contracts.heap import PairSetObj, _alloc, _method, fresh_name, fresh_seq, name_of, pair_of
from contracts.registry import Unit, register

I = IntSort()
a_, b_ = Const('a', Name), Const('b', Name)


def axioms():
    s = Const('s', Seq)
    k = Int('k')
    extra = [('S13', ForAll([s, k], Implies(And(nodup(s), 0 <= k, k < seqs.slen(s)), seqs.idx(s, seqs.at(s, k)) == k),
                            patterns=[seqs.at(s, k)]))]
    return bits.axioms() + seqs.axioms() + extra


class UniqueObj(ObjV):
    """tools.Unique by contract: its item sequence `s` (duplicate-free)."""

    def __init__(self, path, s, name, record=True):
        ObjV.__init__(self, 'Unique', {}, name=name)
        self.s, self.s0 = s, s
        if record:
            _alloc(path, self)
        _method(self, 'add', lambda p, a, k: self._set(add1(self.s, name_of(a[1])), p))
        _method(self, 'discard', lambda p, a, k: self._set(If(mem(self.s, name_of(a[1])), seqs.erase(self.s, name_of(a[1])), self.s), p))
        _method(self, 'replace', self._replace)
        _method(self, 'move', self._move)
        _method(self, 'remove', self._remove)
        _method(self, 'copy', lambda p, a, k: UniqueObj(p, self.s, 'copy(%s)' % self.name))
        _method(self, '__ior__', self._ior)
        _method(self, '__iter__', lambda p, a, k: self.iterv())
        _method(self, '__len__', lambda p, a, k: IntV(seqs.slen(self.s)))
        c = FuncV('Unique.__contains__', lambda p, a, k: BoolV(mem(self.s, name_of(a[-1]))))
        c.is_method = True
        self.fields['__contains__'] = c
        self.truth_fn = lambda: seqs.slen(self.s) > 0

    def havoc(self, path):
        self.s = fresh_seq(path, self.name)

    def _set(self, s, p=None):
        import z3 as _z3
        if p is not None and _z3.is_app_of(s, _z3.Z3_OP_ITE):
            # name the conditional value (if-then-else terms must not end up inside quantifier patterns)
            c = fresh_seq(p, self.name)
            p.assume(c == s)
            s = c
        self.s = s
        return NONE

    def iterv(self):
        s = self.s
        return IterV(lambda k: TermV(seqs.at(s, k)), seqs.slen(s), 'iter(%s)' % self.name)

    def _replace(self, p, a, k):
        old, new = name_of(a[1]), name_of(a[2])
        if p.branch(And(mem(self.s, old), Not(mem(self.s, new)))):
            return self._set(seqs.set_at(self.s, seqs.idx(self.s, old), new))
        raise PyRaise('ValueError')

    def _move(self, p, a, k):
        x, i = name_of(a[1]), a[2].t
        if p.branch(mem(self.s, x)):
            return self._set(If(seqs.idx(self.s, x) == i, self.s, seqs.ins_at(seqs.erase(self.s, x), i, x)))
        raise PyRaise('ValueError')

    def _remove(self, p, a, k):
        x = name_of(a[1])
        if p.branch(mem(self.s, x)):
            return self._set(seqs.erase(self.s, x))
        raise PyRaise('KeyError')

    def _ior(self, p, a, k):
        xs = seq_of_iterable(a[1])
        self.s = fold_add(self.s, xs, seqs.slen(xs))
        return self


def seq_of_iterable(v):
    s = getattr(v, 's', None)
    if s is None:
        raise Unsupported('iterable of labels expected, got %r' % (v,))
    return s


class NameSeqArg(ObjV):
    """A caller-supplied sequence of labels (re-iterable, arbitrary order, possibly with repeats)."""

    def __init__(self, path, name):
        ObjV.__init__(self, 'NameSequence', {}, name=name)
        self.s = fresh_seq(path, name)
        _method(self, '__iter__', lambda p, a, k: IterV(lambda kk: TermV(seqs.at(self.s, kk)), seqs.slen(self.s), 'iter(%s)' % name))
        _method(self, '__len__', lambda p, a, k: IntV(seqs.slen(self.s)))
        c = FuncV('seq.__contains__', lambda p, a, k: BoolV(mem(self.s, name_of(a[-1]))))
        c.is_method = True
        self.fields['__contains__'] = c


class DefPairs(PairSetObj):
    """d._pairs with the bulk methods update / difference_update / |= over generated pairs (closed forms)."""

    def __init__(self, path, P, name='_pairs', record=True):
        PairSetObj.__init__(self, path, P, name, record)
        _method(self, 'update', lambda p, a, k: self._bulk(p, a[1], True))
        _method(self, 'difference_update', lambda p, a, k: self._bulk(p, a[1], False))
        _method(self, '__ior__', self._ior)
        _method(self, '__isub__', self._isub)

    def _bulk(self, p, it, add):
        if not isinstance(it, (IterV, SeqV)):
            raise Unsupported('bulk update with %r' % (it,))
        n = next(p.eng.counter)
        P2 = Const('pairs!%d' % n, PSet)
        w = Function('pairs.w!%d' % n, Name, Name, I)
        t = Int('t')
        P = self.P

        def el(tt):
            return pair_of(it.at(tt))
        p.assume(it.length >= 0)
        ea, eb = el(t)
        hit = And(0 <= w(a_, b_), w(a_, b_) < it.length, el(w(a_, b_))[0] == a_, el(w(a_, b_))[1] == b_)
        if add:
            p.assume(ForAll([t], Implies(And(0 <= t, t < it.length), Select(P2, ea, eb)), patterns=[Select(P2, ea, eb)]))
            p.assume(ForAll([a_, b_], Implies(Select(P, a_, b_), Select(P2, a_, b_)), patterns=[Select(P, a_, b_)]))
            p.assume(ForAll([a_, b_], Implies(Select(P2, a_, b_), Or(Select(P, a_, b_), hit)), patterns=[Select(P2, a_, b_)]))
        else:
            p.assume(ForAll([t], Implies(And(0 <= t, t < it.length), Not(Select(P2, ea, eb))), patterns=[Select(P2, ea, eb)]))
            p.assume(ForAll([a_, b_], Implies(Select(P2, a_, b_), Select(P, a_, b_)), patterns=[Select(P2, a_, b_)]))
            p.assume(ForAll([a_, b_], Implies(And(Select(P, a_, b_), Not(Select(P2, a_, b_))), hit), patterns=[Select(P, a_, b_)]))
        self.P = P2
        return NONE

    def _ior(self, p, a, k):
        other = a[1]
        if not isinstance(other, PairSetObj):
            raise Unsupported('|= with %r' % (other,))
        n = next(p.eng.counter)
        P2 = Const('pairs!%d' % n, PSet)
        p.assume(ForAll([a_, b_], Select(P2, a_, b_) == Or(Select(self.P, a_, b_), Select(other.P, a_, b_)),
                        patterns=[Select(P2, a_, b_), Select(self.P, a_, b_), Select(other.P, a_, b_)]))
        self.P = P2
        return self

    def _isub(self, p, a, k):
        """pairs -= other (builtin set.__isub__ with another set of pairs): the own pairs that are not in the other set; returns self"""
        other = a[1]
        if not isinstance(other, PairSetObj) or other is self:
            raise Unsupported('-= with %r' % (other,))
        n = next(p.eng.counter)
        P2 = Const('pairs!%d' % n, PSet)
        p.assume(ForAll([a_, b_], Select(P2, a_, b_) == And(Select(self.P, a_, b_), Not(Select(other.P, a_, b_))),
                        patterns=[Select(P2, a_, b_), Select(self.P, a_, b_), Select(other.P, a_, b_)]))
        self.P = P2
        return self


def inv_pairs(O, P, C):
    return ForAll([a_, b_], Implies(Select(C, a_, b_), And(mem(O, a_), mem(P, b_))), patterns=[Select(C, a_, b_)])


def make_definition(path, name='self', record=False):
    O, P = fresh_seq(path, name + '.O'), fresh_seq(path, name + '.P')
    C = Const('%s.C!%d' % (name, next(path.eng.counter)), PSet)
    path.assume(And(nodup(O), nodup(P), inv_pairs(O, P, C)))
    d = ObjV('Definition', {}, name=name)
    d.fields['_objects'] = UniqueObj(path, O, name + '._objects', record)
    d.fields['_properties'] = UniqueObj(path, P, name + '._properties', record)
    d.fields['_pairs'] = DefPairs(path, C, name + '._pairs', record)
    d.O0, d.P0, d.C0 = O, P, C
    d.objs0 = (d.fields['_objects'], d.fields['_properties'], d.fields['_pairs'])
    return d


def view(d):
    return d.fields['_objects'].s, d.fields['_properties'].s, d.fields['_pairs'].P


def post_wf(path, d, tag='self'):
    O, P, C = view(d)
    path.oblige('post/WF(%s)' % tag, 'post', And(nodup(O), nodup(P)))
    path.oblige('post/INV(%s)-no-residue' % tag, 'post', inv_pairs(O, P, C))
    path.oblige('frame/%s-containers-kept' % tag, 'frame',
                BoolVal((d.fields['_objects'], d.fields['_properties'], d.fields['_pairs']) == d.objs0
                        and set(d.fields) == {'_objects', '_properties', '_pairs'}))


def post_unchanged(path, d, tag='self'):
    O, P, C = view(d)
    path.oblige('post/%s-unchanged' % tag, 'post', And(O == d.O0, P == d.P0, C == d.C0))
    path.oblige('frame/%s-containers-kept' % tag, 'frame',
                BoolVal((d.fields['_objects'], d.fields['_properties'], d.fields['_pairs']) == d.objs0))


def cells_equal(path, name, C, spec):
    """C[a,b] <-> spec(a,b) for all a, b"""
    path.oblige(name, 'post', ForAll([a_, b_], Select(C, a_, b_) == spec(a_, b_), patterns=[Select(C, a_, b_)]))


def _unit(body, extra_axioms=None):
    def make():
        def harness(path):
            env, extra, finish = body(path)
            loops = {'globals': lib.builtins()}
            loops.update(extra or {})
            return env, loops, finish
        return axioms() + (extra_axioms() if extra_axioms else []), harness
    return make


def _ret_none(path, outcome):
    if outcome[0] != 'return':
        path.oblige('post/no-exception', 'post', BoolVal(False))
        return False
    from pyvc.engine import NoneV
    path.oblige('post/returns-None', 'post', BoolVal(isinstance(outcome[1], NoneV)))
    return True


# ---- d[o, p] = v

def _setitem(int_key):
    def body(path):
        d = make_definition(path)
        v = path.fresh_bool('value')
        if int_key:
            pair = IntV(Int('pair'))
        else:
            o, p = fresh_name(path, 'o'), fresh_name(path, 'p')
            pair = TupleV([o, p])

        def finish(path, env, outcome):
            if int_key:
                path.oblige('post/int-key-rejected', 'post', BoolVal(outcome == ('raise', 'ValueError')))
                post_unchanged(path, d)
                return
            if not _ret_none(path, outcome):
                return
            O, P, C = view(d)
            post_wf(path, d)
            path.oblige('post/objects', 'post', O == add1(d.O0, o.t))
            path.oblige('post/properties', 'post', P == add1(d.P0, p.t))
            path.oblige('post/cells', 'post', C == Store(d.C0, o.t, p.t, v))
        return {'self': d, 'pair': pair, 'value': BoolV(v)}, None, finish
    return body


# ---- add_object / add_property / set_object / set_property

def _add_or_set(kind, axis):
    """kind in {'add','set'}; axis 'object': (obj, properties) ; axis 'property': (prop, objects)"""
    def body(path):
        d = make_definition(path)
        x = fresh_name(path, 'obj' if axis == 'object' else 'prop')
        xs = NameSeqArg(path, 'properties' if axis == 'object' else 'objects')
        env = {'self': d, ('obj' if axis == 'object' else 'prop'): x, ('properties' if axis == 'object' else 'objects'): xs}
        # should the bulk call `pairs.update(<generator of pairs>)` be spelled `pairs |= {<set comprehension of pairs>}`: the closed form of a
        # pure set comprehension of pairs, generated from the real AST (as in inverted / transposed)
        extra = {'closed_form': {'SetComp#0': lambda interp, env_, node: pure_pairset_comprehension(path, interp, env_, node)}}
        if kind == 'set':
            # `properties = tools.Unique(properties)`: contract of Unique.__init__ (unit tools.Unique.__init__):
            # the names of the argument in the order given, without repeats
            def unique_ctor(p, args, kw):
                arg = args[0] if args else None
                src = seq_of_iterable(arg)
                u = UniqueObj(p, fold_add(seqs.empty, src, seqs.slen(src)), 'Unique(%s)' % arg.name)
                # use lemma.fold_add / mem-infirst for the de-duplicated argument and for the axis it is merged into
                base = d.P0 if axis == 'object' else d.O0
                p.assume([seqs.st_fold_facts(seqs.empty, src, seqs.slen(src)), seqs.st_mem_infirst(src),
                          seqs.st_fold_facts(base, u.s, seqs.slen(u.s)), seqs.st_mem_infirst(u.s)])
                return u
            tools = ObjV('module', {'Unique': FuncV('tools.Unique', unique_ctor)}, name='tools')
            extra['globals'] = dict(lib.builtins(), tools=tools)
            # the loop `for p in self._properties: if p in properties: pairs.add(...) else: pairs.discard(...)`
            pairs = d.fields['_pairs']
            other_axis = d.fields['_properties' if axis == 'object' else '_objects']

            def inv(e, k):
                L = other_axis.s          # fixed during the loop
                C = pairs.P
                first = lambda n: And(mem(L, n), seqs.idx(L, n) < k)
                if axis == 'object':
                    return [('cells', ForAll([a_, b_], Select(C, a_, b_) ==
                                             If(And(a_ == x.t, first(b_)), mem(xs.s, b_), Select(d.C0, a_, b_)),
                                             patterns=[Select(C, a_, b_)]))]
                return [('cells', ForAll([a_, b_], Select(C, a_, b_) ==
                                         If(And(b_ == x.t, first(a_)), mem(xs.s, a_), Select(d.C0, a_, b_)),
                                         patterns=[Select(C, a_, b_)]))]
            spec = LoopSpec(inv)
            spec.havoc_objs = [pairs]
            extra[0] = spec

        def finish(path, env_, outcome):
            if not _ret_none(path, outcome):
                return
            O, P, C = view(d)
            n = seqs.slen(xs.s)
            # use lemma.fold_add for the appended names, lemma mem-infirst for the argument
            path.assume([seqs.st_fold_facts(d.P0 if axis == 'object' else d.O0, xs.s, n), seqs.st_mem_infirst(xs.s)])
            if kind == 'set':
                # use lemma.fold_dedup (Lean: lemmas/Seq.lean lemma_fold_dedup): |= of Unique(xs) appends the same names in the same order as |= of xs
                path.assume(seqs.st_fold_dedup(d.P0 if axis == 'object' else d.O0, xs.s))
            if axis == 'object':
                path.oblige('post/objects', 'post', O == add1(d.O0, x.t))
                path.oblige('post/properties-appended-in-order-given', 'post', P == fold_add(d.P0, xs.s, n))
                if kind == 'add':
                    cells_equal(path, 'post/cells', C, lambda a, b: Or(Select(d.C0, a, b), And(a == x.t, mem(xs.s, b))))
                else:
                    cells_equal(path, 'post/cells', C, lambda a, b: If(a == x.t, mem(xs.s, b), Select(d.C0, a, b)))
            else:
                path.oblige('post/properties', 'post', P == add1(d.P0, x.t))
                path.oblige('post/objects-appended-in-order-given', 'post', O == fold_add(d.O0, xs.s, n))
                if kind == 'add':
                    cells_equal(path, 'post/cells', C, lambda a, b: Or(Select(d.C0, a, b), And(b == x.t, mem(xs.s, a))))
                else:
                    cells_equal(path, 'post/cells', C, lambda a, b: If(b == x.t, mem(xs.s, a), Select(d.C0, a, b)))
            post_wf(path, d)
        return env, extra, finish
    return body


# ---- remove_object / remove_property

def _remove(axis):
    def body(path):
        d = make_definition(path)
        x = fresh_name(path, 'obj' if axis == 'object' else 'prop')

        def finish(path, env, outcome):
            O, P, C = view(d)
            known = mem(d.O0 if axis == 'object' else d.P0, x.t)
            if outcome[0] == 'raise':
                path.oblige('post/KeyError-iff-unknown', 'post', And(BoolVal(outcome[1] == 'KeyError'), Not(known)))
                post_unchanged(path, d)
                return
            if not _ret_none(path, outcome):
                return
            path.oblige('post/accepted', 'post', known)
            if axis == 'object':
                path.oblige('post/objects', 'post', And(O == seqs.erase(d.O0, x.t), P == d.P0))
                cells_equal(path, 'post/cells', C, lambda a, b: And(Select(d.C0, a, b), a != x.t))
            else:
                path.oblige('post/properties', 'post', And(P == seqs.erase(d.P0, x.t), O == d.O0))
                cells_equal(path, 'post/cells', C, lambda a, b: And(Select(d.C0, a, b), b != x.t))
            post_wf(path, d)
        # (`pairs.difference_update(<generator>)` spelled `pairs -= {<set comprehension>}`: closed form from the real AST)
        return ({'self': d, ('obj' if axis == 'object' else 'prop'): x},
                {'closed_form': {'SetComp#0': lambda interp, env_, node: pure_pairset_comprehension(path, interp, env_, node)}}, finish)
    return body


# ---- move_object / move_property

def _move(axis):
    def body(path):
        d = make_definition(path)
        x = fresh_name(path, 'obj' if axis == 'object' else 'prop')
        i = Int('index')

        def finish(path, env, outcome):
            O, P, C = view(d)
            L0 = d.O0 if axis == 'object' else d.P0
            if outcome[0] == 'raise':
                path.oblige('post/ValueError-iff-unknown', 'post', And(BoolVal(outcome[1] == 'ValueError'), Not(mem(L0, x.t))))
                post_unchanged(path, d)
                return
            if not _ret_none(path, outcome):
                return
            post_wf(path, d)
            moved = If(seqs.idx(L0, x.t) == i, L0, seqs.ins_at(seqs.erase(L0, x.t), i, x.t))
            if axis == 'object':
                path.oblige('post/view', 'post', And(O == moved, P == d.P0, C == d.C0))
            else:
                path.oblige('post/view', 'post', And(P == moved, O == d.O0, C == d.C0))
        return {'self': d, ('obj' if axis == 'object' else 'prop'): x, 'index': IntV(i)}, None, finish
    return body


# ---- rename_object / rename_property

class PairAcc:
    """ghost accumulator of the set comprehension in rename_*: a set of pairs"""

    def __init__(self, path):
        self.path = path
        self.acc0 = Const('acc0!%d' % next(path.eng.counter), PSet)
        path.assume(ForAll([a_, b_], Not(Select(self.acc0, a_, b_)), patterns=[Select(self.acc0, a_, b_)]))

    def fresh_acc(self, p):
        return Const('acc!%d' % next(p.eng.counter), PSet)

    def extend(self, acc, elt):
        o, pp = pair_of(elt)
        return Store(acc, o, pp, True)

    def result(self, p, acc):
        return PairSetObj(p, acc, 'comprehension-result')


def _rename(axis):
    def body(path):
        d = make_definition(path)
        old, new = fresh_name(path, 'old'), fresh_name(path, 'new')
        pairs = d.fields['_pairs']
        other_axis = d.fields['_properties' if axis == 'object' else '_objects']
        L0, M0 = (d.O0, d.P0) if axis == 'object' else (d.P0, d.O0)
        ok = And(mem(L0, old.t), Not(mem(L0, new.t)))
        acc = PairAcc(path)

        def first(n, k):
            return And(mem(M0, n), seqs.idx(M0, n) < k)

        def inv(e, k, A):
            C = pairs.P
            if axis == 'object':
                return [('pairs', ForAll([a_, b_], Select(C, a_, b_) == And(Select(d.C0, a_, b_), Not(And(a_ == old.t, first(b_, k)))),
                                         patterns=[Select(C, a_, b_)])),
                        ('moved', ForAll([a_, b_], Select(A, a_, b_) == And(a_ == new.t, Select(d.C0, old.t, b_), first(b_, k)),
                                         patterns=[Select(A, a_, b_)]))]
            return [('pairs', ForAll([a_, b_], Select(C, a_, b_) == And(Select(d.C0, a_, b_), Not(And(b_ == old.t, first(a_, k)))),
                                     patterns=[Select(C, a_, b_)])),
                    ('moved', ForAll([a_, b_], Select(A, a_, b_) == And(b_ == new.t, Select(d.C0, a_, old.t), first(a_, k)),
                                     patterns=[Select(A, a_, b_)]))]
        acc.invariant = inv
        acc.havoc = lambda p: pairs.havoc(p)

        def finish(path, env, outcome):
            O, P, C = view(d)
            if outcome[0] == 'raise':
                # new present (also new = old) or old unknown -> ValueError, unchanged
                path.oblige('post/ValueError-iff-rejected', 'post', And(BoolVal(outcome[1] == 'ValueError'), Not(ok)))
                post_unchanged(path, d)
                return
            if not _ret_none(path, outcome):
                return
            path.oblige('post/accepted', 'post', ok)
            post_wf(path, d)
            renamed = seqs.set_at(L0, seqs.idx(L0, old.t), new.t)
            if axis == 'object':
                path.oblige('post/names-replaced-in-place', 'post', And(O == renamed, P == d.P0))
                cells_equal(path, 'post/cells-moved', C,
                            lambda a, b: Or(And(a != old.t, a != new.t, Select(d.C0, a, b)), And(a == new.t, Select(d.C0, old.t, b))))
            else:
                path.oblige('post/names-replaced-in-place', 'post', And(P == renamed, O == d.O0))
                cells_equal(path, 'post/cells-moved', C,
                            lambda a, b: Or(And(b != old.t, b != new.t, Select(d.C0, a, b)), And(b == new.t, Select(d.C0, a, old.t))))
        return {'self': d, 'old': old, 'new': new}, {'comprehension_loops': {'SetComp#0': acc}}, finish
    return body


def _lemma_fold():
    def prove(path):
        s, xs = Const('s0', Seq), Const('xs0', Seq)
        k = Int('k0')
        y = Const('y', Name)
        # induction on k: base and step (the engine's induction schema: both VCs discharged => the lemma holds for all k >= 0)
        path.eng.add_vc(__import__('pyvc.engine', fromlist=['VC']).VC('base', 'lemma', [], seqs.st_fold_facts(s, xs, 0), []))
        hyp = seqs.st_fold_facts(s, xs, k)
        path.eng.add_vc(__import__('pyvc.engine', fromlist=['VC']).VC('step', 'lemma', [k >= 0, hyp], seqs.st_fold_facts(s, xs, k + 1), []))
        # mem(xs, y) <-> infirst(xs, y, len(xs))
        path.eng.add_vc(__import__('pyvc.engine', fromlist=['VC']).VC('mem-infirst', 'lemma', [], seqs.st_mem_infirst(xs), []))
    return axioms(), prove


def _lemma_discard_fold():
    def prove(path):
        from pyvc.engine import VC
        s, xs = Const('s0', Seq), Const('xs0', Seq)
        k = Int('k0')
        # induction on k (schema of the engine, as for lemma.fold_add): base and step
        path.eng.add_vc(VC('base', 'lemma', [], seqs.st_discard_fold_present(s, xs, 0), []))
        path.eng.add_vc(VC('step', 'lemma', [k >= 0, seqs.st_discard_fold_present(s, xs, k)], seqs.st_discard_fold_present(s, xs, k + 1), []))
    return axioms() + seqs.discard_axioms(), prove


register(Unit('lemma.discard_fold_present', None, None, _lemma_discard_fold,
              assumptions=['induction on k carried out as base + step obligations (schema of the engine)']))
register(Unit('lemma.fold_add', None, None, _lemma_fold,
              assumptions=['induction on k carried out as base + step obligations (schema of the engine)']))

D = 'concepts/definitions.py'
ASSUME = ['A-HEAP; contracts of tools.Unique methods (units tools.Unique.*, stdlib.MutableSet.*) used at the calls',
          'builtin set of pairs as an extensional array; SEQ theory (pyvc/seqs.py)', 'requires WF(self) and INV(self)']
_UNITS = [
    ('__setitem__', 'MutableMixin.__setitem__', _setitem(False)),
    ('__setitem__.int', 'MutableMixin.__setitem__', _setitem(True)),
    ('add_object', 'MutableMixin.add_object', _add_or_set('add', 'object')),
    ('add_property', 'MutableMixin.add_property', _add_or_set('add', 'property')),
    ('set_object', 'MutableMixin.set_object', _add_or_set('set', 'object')),
    ('set_property', 'MutableMixin.set_property', _add_or_set('set', 'property')),
    ('remove_object', 'MutableMixin.remove_object', _remove('object')),
    ('remove_property', 'MutableMixin.remove_property', _remove('property')),
    ('move_object', 'MutableMixin.move_object', _move('object')),
    ('move_property', 'MutableMixin.move_property', _move('property')),
    ('rename_object', 'MutableMixin.rename_object', _rename('object')),
    ('rename_property', 'MutableMixin.rename_property', _rename('property')),
]
for _n, _q, _b in _UNITS:
    register(Unit('definitions.' + _n, D, _q, _unit(_b), assumptions=ASSUME,
                  linkage=[('concepts.Definition.' + _q.split('.')[1], None)]))


# =============================================================================================
# C14: derivations -- new definition, correct table, no shared mutable state

def pure_pairset_comprehension(path, interp, env, node, result_name='set-comprehension'):
    """Closed form of a PURE set comprehension whose elements are pairs of labels (A-SET: the result is a set, iteration
    order of the generators is irrelevant):
        R[a,b]  <->  exists values of the generator variables in their domains with  all conditions  and  elt = (a,b)
    Generators range over label sequences (Unique / sequence objects) or over a set of pairs.  The element expression and
    the conditions are evaluated from the real AST on fresh variables; any side effect or branching in them is rejected."""
    import ast as _ast
    from z3 import Exists
    inner = dict(env)
    bound, doms = [], []
    n0 = len(path.pc)
    for g in node.generators:
        src = interp.eval(g.iter, inner)
        if isinstance(src, PairSetObj):
            o = Const('go!%d' % next(path.eng.counter), Name)
            pp = Const('gp!%d' % next(path.eng.counter), Name)
            bound += [o, pp]
            doms.append(Select(src.P, o, pp))
            interp.assign(g.target, TupleV([TermV(o), TermV(pp)]), inner)
        else:
            s = seq_of_iterable(src)
            v = Const('gv!%d' % next(path.eng.counter), Name)
            bound.append(v)
            doms.append(mem(s, v))
            interp.assign(g.target, TermV(v), inner)
        for c in g.ifs:
            doms.append(truthy(interp.eval(c, inner)))
    elt = interp.eval(node.elt, inner)
    ea, eb = pair_of(elt)
    if len(path.pc) != n0:
        raise Unsupported('set comprehension with branching/side effects')
    R = Const('R!%d' % next(path.eng.counter), PSet)
    # R[a,b] <-> exists bound. doms /\ elt = (a,b)
    path.assume(ForAll(bound, Implies(And(*doms), Select(R, ea, eb)), patterns=[Select(R, ea, eb)] if True else None))
    sk = [Function('sk!%d' % next(path.eng.counter), Name, Name, Name) for _ in bound]
    from z3 import substitute
    subs = [(v, f(a_, b_)) for v, f in zip(bound, sk)]
    body = And(*[substitute(dd, *subs) for dd in doms] + [substitute(ea, *subs) == a_, substitute(eb, *subs) == b_])
    path.assume(ForAll([a_, b_], Implies(Select(R, a_, b_), body), patterns=[Select(R, a_, b_)]))
    return DefPairs(path, R, result_name)


def triple_fromargs_contract(p, args, kw):
    """post of Triple._fromargs (unit definitions._fromargs): a new instance holding exactly the three arguments"""
    o, pr, pairs = args[-3:]
    inst = ObjV('Definition', {'_objects': o, '_properties': pr, '_pairs': pairs}, name='Definition#%d' % next(p.eng.counter))
    _alloc(p, inst)
    inst.objs0 = (o, pr, pairs)
    return inst


def _with_fromargs(d):
    f = FuncV('Definition._fromargs', triple_fromargs_contract)
    f.is_method = True
    d.fields['_fromargs'] = f
    return d


def _fromargs_unit(path):
    from contracts.tools_unique import super_new
    o = UniqueObj(path, fresh_seq(path, 'o'), '_objects_arg', record=False)
    pr = UniqueObj(path, fresh_seq(path, 'p'), '_properties_arg', record=False)
    pairs = DefPairs(path, Const('pairs_arg', PSet), '_pairs_arg', record=False)
    cls = ObjV('class', {}, name='Definition')

    def finish(path, env, outcome):
        if outcome[0] != 'return':
            path.oblige('post/no-exception', 'post', BoolVal(False))
            return
        r = outcome[1]
        ok = isinstance(r, ObjV) and r in path.ghost.get('allocs', []) and r.cls == 'Definition' \
            and r.fields.get('_objects') is o and r.fields.get('_properties') is pr and r.fields.get('_pairs') is pairs \
            and set(r.fields) == {'_objects', '_properties', '_pairs'}
        path.oblige('post/new-instance-holding-the-arguments', 'post', BoolVal(ok))
    return ({'cls': cls, '_objects': o, '_properties': pr, '_pairs': pairs},
            {'globals': dict(lib.builtins(), super=super_new(path))}, finish)


def fresh_result(path, r, sources, tag='result'):
    """freshness: result and all its containers were allocated by this call and are pairwise distinct; no container is
    shared with a source."""
    allocs = path.ghost.get('allocs', [])
    ok = isinstance(r, ObjV) and r.cls == 'Definition' and r in allocs and set(r.fields) >= {'_objects', '_properties', '_pairs'}
    path.oblige('fresh/%s' % tag, 'fresh', BoolVal(ok))
    if not ok:
        return False
    cs = [r.fields['_objects'], r.fields['_properties'], r.fields['_pairs']]
    src = [c for d in sources for c in (d.fields['_objects'], d.fields['_properties'], d.fields['_pairs'])]
    path.oblige('fresh/%s-containers-allocated-here' % tag, 'fresh', BoolVal(all(any(c is a for a in allocs) for c in cs)))
    path.oblige('fresh/%s-containers-not-shared' % tag, 'fresh', BoolVal(not any(c is s for c in cs for s in src)))
    path.oblige('fresh/%s-containers-distinct' % tag, 'fresh', BoolVal(len({id(c) for c in cs}) == 3))
    return True


def _derive(which):
    def body(path):
        d = _with_fromargs(make_definition(path))
        extra = {}
        if which in ('inverted', 'transposed'):
            extra['closed_form'] = {'SetComp#0': lambda interp, env, node: pure_pairset_comprehension(path, interp, env, node)}

        def finish(path, env, outcome):
            if outcome[0] != 'return':
                path.oblige('post/no-exception', 'post', BoolVal(False))
                return
            r = outcome[1]
            if not fresh_result(path, r, [d]):
                return
            O, P, C = view(r)
            if which == 'copy':
                path.oblige('post/table', 'post', And(O == d.O0, P == d.P0, C == d.C0))
            elif which == 'inverted':
                path.oblige('post/names', 'post', And(O == d.O0, P == d.P0))
                # complement of cells (within the table)
                cells_equal(path, 'post/cells-complemented', C, lambda a, b: And(mem(d.O0, a), mem(d.P0, b), Not(Select(d.C0, a, b))))
            else:
                path.oblige('post/axes-swapped', 'post', And(O == d.P0, P == d.O0))
                cells_equal(path, 'post/cells-transposed', C, lambda a, b: Select(d.C0, b, a))
            path.oblige('post/WF(result)', 'post', And(nodup(O), nodup(P), inv_pairs(O, P, C)))
            path.oblige('post/source-unchanged', 'post', And(view(d)[0] == d.O0, view(d)[1] == d.P0, view(d)[2] == d.C0))
        return {'self': d}, extra, finish
    return body


register(Unit('definitions._fromargs', D, 'Triple._fromargs', _unit(_fromargs_unit), assumptions=['object.__new__ allocates a new instance'],
              linkage=[('concepts.Definition._fromargs', None)]))
for _w, _q in (('copy', 'Triple.copy'), ('inverted', 'TransformableMixin.inverted'), ('transposed', 'TransformableMixin.transposed')):
    register(Unit('definitions.' + _w, D, _q, _unit(_derive(_w)),
                  assumptions=ASSUME + ['contract of Triple._fromargs (unit definitions._fromargs), Unique.copy (unit tools.Unique.copy)',
                                        'A-SET: a pure set comprehension denotes the set of its element values (closed form generated from the real AST)'],
                  linkage=[('concepts.Definition.' + _w, None)]))


# ---- in-place and derived union / intersection

def _xor(self, p, a, k):
    other = a[1]
    R = Const('xor!%d' % next(p.eng.counter), PSet)
    p.assume(ForAll([a_, b_], Select(R, a_, b_) == (Select(self.P, a_, b_) != Select(other.P, a_, b_)),
                    patterns=[Select(R, a_, b_)]))
    return PairSetObj(p, R, 'xor')


def _pairs_iand(self, p, a, k):
    other = a[1]
    R = Const('and!%d' % next(p.eng.counter), PSet)
    p.assume(ForAll([a_, b_], Select(R, a_, b_) == And(Select(self.P, a_, b_), Select(other.P, a_, b_)),
                    patterns=[Select(R, a_, b_), Select(self.P, a_, b_), Select(other.P, a_, b_)]))
    self.P = R
    return self


def _unique_iand(self, p, a, k):
    """contract of MutableSet.__iand__ + Set.__sub__ on a Unique (proved in units stdlib.MutableSet.__iand__.*, stdlib.Set.__sub__.*): keeps the own elements that are also in the
    argument, in the own order (discards the others one by one)."""
    self.s = seqs.keep(self.s, seqs.setof(seq_of_iterable(a[1])))
    return self


def _unique_and(self, p, a, k):
    """contract of Set.__and__ on a Unique (proved in unit stdlib.Set.__and__.unique): Unique(v for v in other if v in self) -- the order of the RIGHT operand."""
    other = a[1]
    return UniqueObj(p, seqs.keep(seq_of_iterable(other), seqs.setof(self.s)), '(%s & %s)' % (self.name, other.name))


def _unique_isub(self, p, a, k):
    """contract of MutableSet.__isub__ on a Unique (proved in unit stdlib.MutableSet.__isub__ for an argument that is not the Unique itself): discards the
    items of the argument one by one, in the order given; returns self.  (`u -= u` takes the `self.clear()` branch of the mixin: not modelled.)"""
    other = a[1]
    if other is self:
        raise Unsupported('u -= u: MutableSet.__isub__ on the Unique itself')
    xs = seq_of_iterable(other)
    self.s = seqs.discard_fold(self.s, xs, seqs.slen(xs))
    return self


def _install_set_algebra():
    import types
    for cls, nm, fn in ((PairSetObj, '__xor__', _xor), (PairSetObj, '__iand__', _pairs_iand),
                        (UniqueObj, '__iand__', _unique_iand), (UniqueObj, '__and__', _unique_and), (UniqueObj, '__isub__', _unique_isub)):
        orig = cls.__init__

        def init(self, *args, _orig=orig, _nm=nm, _fn=fn, **kw):
            _orig(self, *args, **kw)
            _method(self, _nm, types.MethodType(_fn, self))
        cls.__init__ = init


_install_set_algebra()

conflict = Function('conflict', Seq, Seq, PSet, Seq, Seq, PSet, seqs.B)     # a shared cell differs
w_co = Function('w.conflict.o', Seq, Seq, PSet, Seq, Seq, PSet, Name)
w_cp = Function('w.conflict.p', Seq, Seq, PSet, Seq, Seq, PSet, Name)


def conflict_axioms(V1, V2):
    """definition of `conflict` instantiated for two views (skolemised): exists shared o, p with different cells"""
    (O1, P1, C1), (O2, P2, C2) = V1, V2
    c = conflict(O1, P1, C1, O2, P2, C2)
    wo, wp = w_co(O1, P1, C1, O2, P2, C2), w_cp(O1, P1, C1, O2, P2, C2)
    shared = lambda o, p: And(mem(O1, o), mem(O2, o), mem(P1, p), mem(P2, p), Select(C1, o, p) != Select(C2, o, p))
    return [Implies(c, shared(wo, wp)),
            ForAll([a_, b_], Implies(shared(a_, b_), c), patterns=[Select(C1, a_, b_), Select(C2, a_, b_)])]


def _conflicting_pairs(path):
    left, right = make_definition(path, 'left'), make_definition(path, 'right')
    V1, V2 = (left.O0, left.P0, left.C0), (right.O0, right.P0, right.C0)

    def shared_o(e):
        return e.val('objects').s

    inner = LoopSpec(lambda e, k: [])
    # iteration (o, p) of the nested loops yields the pair iff the two definitions differ on it
    inner.yields = lambda e, k: (Select(left.C0, e.o, seqs.at(e.val('properties').s, k)) != Select(right.C0, e.o, seqs.at(e.val('properties').s, k)),
                                 TupleV([TermV(e.o), TermV(seqs.at(e.val('properties').s, k))]))
    outer = LoopSpec(lambda e, k: [])

    def finish(path, env, outcome):
        if outcome[0] != 'return':
            path.oblige('post/no-exception', 'post', BoolVal(False))
            return
        path.oblige('post/only-loop-yields', 'post', BoolVal(len(path.out) == 0))
        # the loops range over the shared objects x shared properties (in the order of the right operand)
        path.oblige('post/ranges', 'post', And(env['objects'].s == seqs.keep(right.O0, seqs.setof(left.O0)),
                                               env['properties'].s == seqs.keep(right.P0, seqs.setof(left.P0))))
        for dd, tag in ((left, 'left'), (right, 'right')):
            post_unchanged(path, dd, tag)
    return {'left': left, 'right': right}, {0: outer, 1: inner}, finish


def conflicting_pairs_contract(V1, V2):
    """callee contract: an iterable that is non-empty iff a shared cell differs (from the yields clauses: the nested loops
    are the filter of shared objects x shared properties by 'the cells differ')"""
    def f(p, args, kw):
        n = Int('conflicts.len!%d' % next(p.eng.counter))
        p.assume(n >= 0)
        p.assume(conflict_axioms(V1, V2))
        p.assume((n > 0) == conflict(*V1, *V2))
        return IterV(lambda t: TupleV([fresh_name(p, 'co'), fresh_name(p, 'cp')]), n, 'conflicting_pairs')
    return FuncV('conflicting_pairs', f)


def _ensure_compatible(path):
    left, right = make_definition(path, 'left'), make_definition(path, 'right')
    V1, V2 = (left.O0, left.P0, left.C0), (right.O0, right.P0, right.C0)
    g = dict(lib.builtins(), conflicting_pairs=conflicting_pairs_contract(V1, V2))

    def finish(path, env, outcome):
        c = conflict(*V1, *V2)
        if outcome[0] == 'raise':
            path.oblige('post/ValueError-iff-conflict', 'post', And(BoolVal(outcome[1] == 'ValueError'), c))
        else:
            path.oblige('post/returns-iff-compatible', 'post', Not(c))
        for dd, tag in ((left, 'left'), (right, 'right')):
            post_unchanged(path, dd, tag)
    return {'left': left, 'right': right}, {'globals': g}, finish


def ensure_compatible_contract(V1, V2):
    def f(p, args, kw):
        p.assume(conflict_axioms(V1, V2))
        if p.branch(conflict(*V1, *V2)):
            raise PyRaise('ValueError')
        return NONE
    return FuncV('ensure_compatible', f)


def model_update(kind, d, other, ignore):
    """the model of in-place union / intersection on the views (before-state)"""
    O1, P1, C1 = d.O0, d.P0, d.C0
    O2, P2, C2 = other.O0, other.P0, other.C0
    if kind == 'union':
        return (fold_add(O1, O2, seqs.slen(O2)), fold_add(P1, P2, seqs.slen(P2)), lambda a, b: Or(Select(C1, a, b), Select(C2, a, b)))
    return (seqs.keep(O1, seqs.setof(O2)), seqs.keep(P1, seqs.setof(P2)), lambda a, b: And(Select(C1, a, b), Select(C2, a, b)))


def _update(kind, via_operator=False, aliased=False):
    def body(path):
        d = make_definition(path, 'self')
        other = d if aliased else make_definition(path, 'other')      # aliased: d.union_update(d) / d |= d
        V1, V2 = (d.O0, d.P0, d.C0), (other.O0, other.P0, other.C0)
        ignore = path.fresh_bool('ignore_conflicts')
        g = dict(lib.builtins(), ensure_compatible=ensure_compatible_contract(V1, V2))
        env = {'self': d, 'other': other}
        if via_operator:
            ignore = BoolVal(False)
            m = FuncV('%s_update' % kind, lambda p, a, k: update_contract(kind, d, other, a, k)(p))
            m.is_method = True
            d.fields['%s_update' % kind] = m
        else:
            env['ignore_conflicts'] = BoolV(ignore)

        def finish(path, env_, outcome):
            path.assume(conflict_axioms(V1, V2))
            c = conflict(*V1, *V2)
            if outcome[0] == 'raise':
                path.oblige('post/ValueError-iff-conflict-not-ignored', 'post', And(BoolVal(outcome[1] == 'ValueError'), c, Not(ignore)))
                post_unchanged(path, d)
                post_unchanged(path, other, 'other')
                return
            path.oblige('post/accepted', 'post', Or(ignore, Not(c)))
            if via_operator:
                path.oblige('post/returns-self', 'post', BoolVal(outcome[1] is d))
            elif not _ret_none(path, outcome):
                return
            O, P, C = view(d)
            mO, mP, mC = model_update(kind, d, other, ignore)
            path.assume([seqs.st_fold_facts(d.O0, other.O0, seqs.slen(other.O0)), seqs.st_fold_facts(d.P0, other.P0, seqs.slen(other.P0)),
                         seqs.st_mem_infirst(other.O0), seqs.st_mem_infirst(other.P0)])
            path.oblige('post/names', 'post', And(O == mO, P == mP))
            cells_equal(path, 'post/cells', C, mC)
            d_fields = {k: v for k, v in d.fields.items() if k in ('_objects', '_properties', '_pairs')}
            path.oblige('post/WF', 'post', And(nodup(O), nodup(P), inv_pairs(O, P, C)))
            path.oblige('frame/containers-kept', 'frame', BoolVal((d_fields['_objects'], d_fields['_properties'], d_fields['_pairs']) == d.objs0))
            if aliased:
                # x op x = x: the definition is unchanged
                path.assume([seqs.st_fold_self(d.O0), seqs.st_fold_self(d.P0)])
                path.oblige('post/aliased-call-leaves-the-definition-unchanged', 'post', And(O == d.O0, P == d.P0))
                cells_equal(path, 'post/aliased-cells-unchanged', C, lambda a, b: Select(d.C0, a, b))
            else:
                post_unchanged(path, other, 'other')
        return env, {'globals': g}, finish
    return body


def update_contract(kind, d, other, args, kw):
    """callee contract of union_update / intersection_update (units definitions.union_update / intersection_update) on object d"""
    def run(p):
        ig = kw.get('ignore_conflicts', args[2] if len(args) > 2 else BoolV(False))
        tgt = args[0]
        oth = args[1]
        V1, V2 = view(tgt), view(oth)
        p.assume(conflict_axioms(V1, V2))
        if not p.branch(Or(truthy(ig), Not(conflict(*V1, *V2)))):
            raise PyRaise('ValueError')
        O1, P1, C1 = V1
        O2, P2, C2 = V2
        n = next(p.eng.counter)
        R = Const('upd!%d' % n, PSet)
        if kind == 'union':
            tgt.fields['_objects'].s = fold_add(O1, O2, seqs.slen(O2))
            tgt.fields['_properties'].s = fold_add(P1, P2, seqs.slen(P2))
            p.assume(ForAll([a_, b_], Select(R, a_, b_) == Or(Select(C1, a_, b_), Select(C2, a_, b_)), patterns=[Select(R, a_, b_)]))
            p.assume([seqs.st_fold_facts(O1, O2, seqs.slen(O2)), seqs.st_fold_facts(P1, P2, seqs.slen(P2)),
                      seqs.st_mem_infirst(O2), seqs.st_mem_infirst(P2)])
        else:
            tgt.fields['_objects'].s = seqs.keep(O1, seqs.setof(O2))
            tgt.fields['_properties'].s = seqs.keep(P1, seqs.setof(P2))
            p.assume(ForAll([a_, b_], Select(R, a_, b_) == And(Select(C1, a_, b_), Select(C2, a_, b_)), patterns=[Select(R, a_, b_)]))
        tgt.fields['_pairs'].P = R
        return NONE
    return run


def _derived(kind):
    def body(path):
        d, other = make_definition(path, 'self'), make_definition(path, 'other')
        ignore = path.fresh_bool('ignore_conflicts')

        def copy_contract(p, args, kw):
            # contract of Triple.copy (unit definitions.copy): a new definition with new containers and the same view
            src = args[0]
            O, P, C = view(src)
            r = ObjV('Definition', {}, name='copy-of-self')
            _alloc(p, r)
            r.fields['_objects'] = UniqueObj(p, O, 'copy._objects')
            r.fields['_properties'] = UniqueObj(p, P, 'copy._properties')
            r.fields['_pairs'] = DefPairs(p, C, 'copy._pairs')
            r.objs0 = (r.fields['_objects'], r.fields['_properties'], r.fields['_pairs'])
            m = FuncV('%s_update' % kind, lambda p2, a2, k2, _r=r: update_contract(kind, _r, other, a2, k2)(p2))
            m.is_method = True
            r.fields['%s_update' % kind] = m
            return r
        f = FuncV('Definition.copy', copy_contract)
        f.is_method = True
        d.fields['copy'] = f

        def finish(path, env, outcome):
            V1, V2 = (d.O0, d.P0, d.C0), (other.O0, other.P0, other.C0)
            path.assume(conflict_axioms(V1, V2))
            c = conflict(*V1, *V2)
            for dd, tag in ((d, 'self'), (other, 'other')):
                O, P, C = view(dd)
                path.oblige('post/%s-unchanged' % tag, 'post', And(O == dd.O0, P == dd.P0, C == dd.C0))
            if outcome[0] == 'raise':
                path.oblige('post/ValueError-iff-conflict-not-ignored', 'post', And(BoolVal(outcome[1] == 'ValueError'), c, Not(ignore)))
                return
            path.oblige('post/accepted', 'post', Or(ignore, Not(c)))
            r = outcome[1]
            if not fresh_result(path, r, [d, other]):
                return
            O, P, C = view(r)
            mO, mP, mC = model_update(kind, d, other, ignore)
            path.oblige('post/names', 'post', And(O == mO, P == mP))
            cells_equal(path, 'post/cells', C, mC)
        return {'self': d, 'other': other, 'ignore_conflicts': BoolV(ignore)}, None, finish
    return body


register(Unit('definitions.conflicting_pairs', D, 'conflicting_pairs', _unit(_conflicting_pairs),
              assumptions=ASSUME + ['Set.__and__ on Unique = the shared names in the order of the right operand (unit stdlib.Set.__and__.unique; stdlib mixin + Unique.__init__)',
                                    'builtin set ^ : symmetric difference'],
              linkage=[('concepts.definitions.conflicting_pairs', None)]))
register(Unit('definitions.ensure_compatible', D, 'ensure_compatible', _unit(_ensure_compatible),
              assumptions=['contract of conflicting_pairs (unit definitions.conflicting_pairs): non-empty iff a shared cell differs'],
              linkage=[('concepts.definitions.ensure_compatible', None)]))
for _k in ('union', 'intersection'):
    register(Unit('definitions.%s_update' % _k, D, 'MutableMixin.%s_update' % _k, _unit(_update(_k)),
                  assumptions=ASSUME + ['requires other is not self (the aliased call is covered on the bounded side only)',
                                        'contract of ensure_compatible (unit definitions.ensure_compatible)',
                                        'MutableSet.__iand__ on Unique keeps the shared names in the own order (units stdlib.MutableSet.__iand__.*)'],
                  linkage=[('concepts.Definition.%s_update' % _k, None)]))
    register(Unit('definitions.%s' % _k, D, 'MutableMixin.%s' % _k, _unit(_derived(_k)),
                  assumptions=['contracts of Triple.copy and %s_update (units definitions.copy / definitions.%s_update)' % (_k, _k)],
                  linkage=[('concepts.Definition.%s' % _k, None), ('concepts.Definition.__%s__' % ('or' if _k == 'union' else 'and'), None)]))
for _k in ('union', 'intersection'):
    register(Unit('definitions.%s_update.aliased' % _k, D, 'MutableMixin.%s_update' % _k, _unit(_update(_k, aliased=True)),
                  assumptions=ASSUME + ['other is self (d.%s_update(d), d %s= d)' % (_k, '|' if _k == 'union' else '&')],
                  linkage=[('concepts.Definition.%s_update' % _k, None)]))
register(Unit('definitions.__ior__', D, 'MutableMixin.__ior__', _unit(_update('union', True)),
              assumptions=['contract of union_update'], linkage=[('concepts.Definition.__ior__', None)]))
register(Unit('definitions.__iand__', D, 'MutableMixin.__iand__', _unit(_update('intersection', True)),
              assumptions=['contract of intersection_update'], linkage=[('concepts.Definition.__iand__', None)]))


# ---- take()

allin = Function('allin', Seq, Seq, seqs.B)          # every element of xs is in s  (Unique.issuperset)
w_allin = Function('w.allin', Seq, Seq, Name)


def allin_axioms(xs, s):
    y = Const('y', Name)
    return [ForAll([y], Implies(And(allin(xs, s), mem(xs, y)), mem(s, y)), patterns=[MultiPattern(allin(xs, s), mem(xs, y))]),
            Implies(Not(allin(xs, s)), And(mem(xs, w_allin(xs, s)), Not(mem(s, w_allin(xs, s)))))]


def _take(path):
    d = _with_fromargs(make_definition(path))
    reorder = path.fresh_bool('reorder')
    given = {'objects': path.branch(path.fresh_bool('objects_given')), 'properties': path.branch(path.fresh_bool('properties_given'))}
    args = {}
    for nm in ('objects', 'properties'):
        if given[nm]:
            a = NameSeqArg(path, nm)
            a.truth_fn = (lambda _a=a: seqs.slen(_a.s) > 0)
            args[nm] = a
        else:
            args[nm] = NONE
    for nm, ax in (('objects', '_objects'), ('properties', '_properties')):
        u = d.fields[ax]

        def issuperset(p, a, k, _u=u):
            xs = seq_of_iterable(a[-1])
            p.assume(allin_axioms(xs, _u.s))
            return BoolV(allin(xs, _u.s))
        _method(u, 'issuperset', issuperset)

        def rsub(p, a, k, _nm=nm):
            # contract of Unique.rsub (unit tools.Unique.rsub): the names of the argument that are not in the receiver, in the argument's order
            r = ObjV('Unique', {}, name='rsub(%s)' % _nm)
            r.of = (_nm, a[-1])
            r.fields['__or__'] = FuncV('or', lambda p2, a2, k2, _r=r: _notfound(_r, a2[-1]))
            return r
        _method(u, 'rsub', rsub)

    trace = {}

    def _notfound(left, right):
        nf = ObjV('Unique', {}, name='notfound')
        nf.parts = (left, right)
        trace['notfound'] = nf
        return nf

    def list_(p, a, k):
        l = ObjV('list', {}, name='list(notfound)')
        l.of = a[0] if a else None
        return l

    def unique_ctor(p, a, k):
        src = seq_of_iterable(a[0])
        p.assume([seqs.st_fold_facts(seqs.empty, src, seqs.slen(src)), seqs.st_mem_infirst(src)])
        return UniqueObj(p, fold_add(seqs.empty, src, seqs.slen(src)), 'Unique(%s)' % a[0].name)
    tools = ObjV('module', {'Unique': FuncV('tools.Unique', unique_ctor)}, name='tools')
    g = dict(lib.builtins(), tools=tools, list=FuncV('list', list_))
    extra = {'globals': g, 'closed_form': {'SetComp#0': lambda interp, env, node: pure_pairset_comprehension(path, interp, env, node)}}

    def model_axis(L0, arg):
        if isinstance(arg, ObjV) and hasattr(arg, 's'):
            dedup = fold_add(seqs.empty, arg.s, seqs.slen(arg.s))
            return If(reorder, dedup, seqs.keep(L0, seqs.setof(arg.s)))
        return L0

    def finish(path, env, outcome):
        unknown = []
        for nm, L0 in (('objects', d.O0), ('properties', d.P0)):
            if given[nm]:
                path.assume(allin_axioms(args[nm].s, L0))
                unknown.append(And(seqs.slen(args[nm].s) > 0, Not(allin(args[nm].s, L0))))
        bad = Or(*unknown) if unknown else BoolVal(False)
        path.oblige('post/source-unchanged', 'post', And(view(d)[0] == d.O0, view(d)[1] == d.P0, view(d)[2] == d.C0))
        if outcome[0] == 'raise':
            path.oblige('post/KeyError-iff-unknown-name-requested', 'post', And(BoolVal(outcome[1] == 'KeyError'), bad))
            # the error names exactly the requested names that are unknown: list(objects-not-found | properties-not-found), each side being
            # rsub of the requested names (of nothing when that argument is None or empty)
            exc = path.ghost.get('raised')
            ea = getattr(exc, 'exc_args', None) or [None]
            nf = trace.get('notfound')
            okm = len(ea) == 1 and getattr(ea[0], 'cls', None) == 'list' and getattr(ea[0], 'of', None) is nf and nf is not None
            path.oblige('post/KeyError-carries-list(notfound)', 'post', BoolVal(bool(okm)))
            if okm:
                for side, nm in zip(nf.parts, ('objects', 'properties')):
                    ax, arg = getattr(side, 'of', (None, None))
                    if isinstance(arg, TupleV):
                        good = And(BoolVal(ax == nm and not arg.items), (seqs.slen(args[nm].s) == 0) if given[nm] else BoolVal(True))
                    else:
                        good = And(BoolVal(ax == nm and given[nm] and arg is args[nm]), (seqs.slen(args[nm].s) > 0) if given[nm] else BoolVal(False))
                    path.oblige('post/notfound-%s-are-the-requested-unknown-ones' % nm, 'post', good)
            return
        path.oblige('post/accepted', 'post', Not(bad))
        r = outcome[1]
        if not fresh_result(path, r, [d]):
            return
        O, P, C = view(r)
        mO, mP = model_axis(d.O0, args['objects']), model_axis(d.P0, args['properties'])
        # sub-table in original order, or in the requested order when reorder is set; an EMPTY selection selects nothing
        path.oblige('post/objects', 'post', O == mO)
        path.oblige('post/properties', 'post', P == mP)
        cells_equal(path, 'post/cells', C, lambda a, b: And(mem(mO, a), mem(mP, b), Select(d.C0, a, b)))
    env = {'self': d, 'objects': args['objects'], 'properties': args['properties'], 'reorder': BoolV(reorder)}
    return env, extra, finish


register(Unit('definitions.take', D, 'TransformableMixin.take', _unit(_take),
              assumptions=ASSUME + ['contracts of Unique.issuperset (every requested name is present), Unique.__init__ (names in the order given, without repeats), '
                                    'Unique.copy, MutableSet.__iand__ (keeps the shared names in the own order; units stdlib.MutableSet.__iand__.*)', 'the rendered list of unknown names is not specified'],
              linkage=[('concepts.Definition.take', None)], max_paths=2000))


# ---- remove_empty_objects / remove_empty_properties

def _remove_empty(axis):
    def body(path):
        d = make_definition(path)
        L0 = d.O0 if axis == 'object' else d.P0
        uobj = d.fields['_objects' if axis == 'object' else '_properties']
        NSet = seqs.NSet
        y = Const('y', Name)
        S = Const('nonempty', NSet)
        # nonempty = the names with at least one true cell
        wit = Function('nonempty.w', Name, Name)
        if axis == 'object':
            path.assume(ForAll([a_, b_], Implies(Select(d.C0, a_, b_), Select(S, a_)), patterns=[Select(d.C0, a_, b_)]))
            path.assume(ForAll([y], Implies(Select(S, y), Select(d.C0, y, wit(y))), patterns=[Select(S, y)]))
        else:
            path.assume(ForAll([a_, b_], Implies(Select(d.C0, a_, b_), Select(S, b_)), patterns=[Select(d.C0, a_, b_)]))
            path.assume(ForAll([y], Implies(Select(S, y), Select(d.C0, wit(y), y)), patterns=[Select(S, y)]))
        Sc = Const('without-true-cell', NSet)
        path.assume(ForAll([y], Select(Sc, y) == Not(Select(S, y)), patterns=[Select(Sc, y), Select(S, y)]))
        E = seqs.keep(L0, Sc)
        made = {}

        def set_closed(interp, env, node):
            # {o for o, _ in self._pairs}: the first (second) components of the true cells -- checked on a symbolic pair
            g = node.generators[0]
            src = interp.eval(g.iter, env)
            o, pp = Const('co', Name), Const('cp', Name)
            inner = dict(env)
            interp.assign(g.target, TupleV([TermV(o), TermV(pp)]), inner)
            el = interp.eval(node.elt, inner)
            ok = src is d.fields['_pairs'] and not g.ifs and isinstance(el, TermV)
            path.oblige('closed-form/nonempty-names', 'post', (el.t == (o if axis == 'object' else pp)) if ok else BoolVal(False))
            st = ObjV('set', {}, name='nonempty')
            c = FuncV('set.__contains__', lambda p, a, k: BoolV(Select(S, name_of(a[-1]))))
            c.is_method = True
            st.fields['__contains__'] = c
            return st

        def list_closed(interp, env, view):
            # [o for o in self._objects if o not in nonempty]: the filter of the own names, in order -- checked on a symbolic name.
            # Stated against the form-independent view of the comprehension (engine.CompView): the source may spell it as a list
            # comprehension or as `acc = []; for o in self._objects: if o not in nonempty: acc.append(o)` (the same list).
            if made.get('list') is not None or view.kind not in ('ListComp', 'Accumulator'):
                raise Unsupported('a second / non-list candidate for the list of the empty names')
            src = view.source()
            v = Const('cv', Name)
            conds, el = view.at(TermV(v))
            ok = src is uobj and len(conds) >= 1 and isinstance(el, TermV)
            path.oblige('closed-form/empty-names', 'post', And(el.t == v, And(*conds) == Not(Select(S, v))) if ok else BoolVal(False))
            from contracts.heap import ListObj
            lo = ListObj(path, E, 'empty_names')
            made['list'] = lo
            return lo

        def inv(e, k):
            s = uobj.s
            return [('removed-so-far', s == seqs.erase_fold(L0, E, k)),
                    ('members', ForAll([y], mem(s, y) == And(mem(L0, y), Not(seqs.infirst(E, y, k))), patterns=[mem(s, y)])),
                    ('nodup', nodup(s))]
        spec = LoopSpec(inv)
        spec.havoc_objs = [uobj]
        spec.on_entry = lambda p, env_: made.__setitem__('removal-loop', True)

        def finish(path, env, outcome):
            if outcome[0] != 'return':
                path.oblige('post/no-exception', 'post', BoolVal(False))
                return
            O, P, C = view(d)
            r = outcome[1]
            path.oblige('post/returns-the-deleted-names-in-order', 'post', BoolVal(r is made.get('list')) if made.get('list') is None
                        else And(BoolVal(r is made['list']), r.s == E))
            # use lemma.erase_fold_keep (assumed) and mem-infirst
            path.assume([seqs.st_erase_fold_keep(L0, S, Sc), seqs.st_mem_infirst(E)])
            if not made.get('removal-loop'):
                # the names were not removed by the loop of `.remove()` calls (clause 0) but at once (`self._objects -= empty`: contract of
                # MutableSet.__isub__, the fold of discard): use lemma.discard_fold_present -- the empty names are distinct names of the
                # axis, so discarding them one by one is removing them one by one
                path.assume(seqs.st_discard_fold_present(L0, E, seqs.slen(E)))
            kept = seqs.keep(L0, S)
            if axis == 'object':
                path.oblige('post/view', 'post', And(O == kept, P == d.P0, C == d.C0))
            else:
                path.oblige('post/view', 'post', And(P == kept, O == d.O0, C == d.C0))
            post_wf(path, d)
        return {'self': d}, {'closed_form': {'SetComp#0': set_closed,
                                             'ListComp#0': lambda interp, env, node: list_closed(interp, env, CompView.of_comprehension(interp, env, node))},
                             'accumulator_form': {'Accumulator#0': list_closed}, 0: spec}, finish
    return body


for _ax in ('object', 'property'):
    _nm = 'remove_empty_%s' % ('objects' if _ax == 'object' else 'properties')
    register(Unit('definitions.' + _nm, D, 'MutableMixin.' + _nm, _unit(_remove_empty(_ax), seqs.discard_axioms),
                  assumptions=ASSUME + ['lemma.erase_fold_keep (Lean: lemmas/Seq.lean lemma_erase_fold_keep; SMT<->Lean transcription by hand): removing the names outside T one by one leaves keep(s, T)',
                                        'contract of MutableSet.remove on Unique (unit stdlib.MutableSet.remove)',
                                        'should the names be removed by `-=`: contract of MutableSet.__isub__ on Unique (unit stdlib.MutableSet.__isub__) and '
                                        'lemma.discard_fold_present (unit of that name: discarding distinct present names one by one = removing them one by one)'],
                  linkage=[('concepts.Definition.' + _nm, None)]))


# ---- Triple.__init__ (the base case of the induction over histories) and Triple.__eq__

def _triple_init(path):
    this = ObjV('Definition', {}, name='self')
    objs, props = NameSeqArg(path, 'objects'), NameSeqArg(path, 'properties')
    cellv = Function('cell', I, I, seqs.B)               # truthiness of bools[i][j]
    # requires (well-typed input): one row per object, one cell per property
    no, np_ = seqs.slen(objs.s), seqs.slen(props.s)

    class Zip(ObjV):
        pass

    def zip_(p, args, kw):
        z = ObjV('zip', {}, name='zip')
        z.parts = list(args)
        return z
    bools = ObjV('Rows', {}, name='bools')

    def unique_ctor(p, a, k):
        src = seq_of_iterable(a[0])
        p.assume([seqs.st_fold_facts(seqs.empty, src, seqs.slen(src)), seqs.st_mem_infirst(src), seqs.st_fold_len(src)])
        return UniqueObj(p, fold_add(seqs.empty, src, seqs.slen(src)), 'Unique(%s)' % a[0].name)
    tools = ObjV('module', {'Unique': FuncV('tools.Unique', unique_ctor)}, name='tools')

    def pairs_closed(interp, env, node):
        # {(o, p) for o, boo in zip(objects, bools) for p, b in zip(properties, boo) if b}: checked on symbolic positions (i, j)
        g1, g2 = node.generators
        z1 = interp.eval(g1.iter, env)
        ok = getattr(z1, 'cls', None) == 'zip' and z1.parts == [objs, bools] and not g1.ifs
        i, j = Int('ci'), Int('cj')
        row = ObjV('Row', {}, name='bools[i]')
        inner = dict(env)
        interp.assign(g1.target, TupleV([TermV(seqs.at(objs.s, i)), row]), inner)
        z2 = interp.eval(g2.iter, inner)
        ok = ok and getattr(z2, 'cls', None) == 'zip' and z2.parts == [props, row]
        b = BoolV(cellv(i, j))
        interp.assign(g2.target, TupleV([TermV(seqs.at(props.s, j)), b]), inner)
        conds = [truthy(interp.eval(c, inner)) for c in g2.ifs]
        el = interp.eval(node.elt, inner)
        okel = ok and len(conds) == 1 and isinstance(el, TupleV)
        path.oblige('closed-form/true-cells', 'post',
                    And(pair_of(el)[0] == seqs.at(objs.s, i), pair_of(el)[1] == seqs.at(props.s, j), conds[0] == cellv(i, j)) if okel else BoolVal(False))
        C = Const('C!init', PSet)
        wi, wj = Function('init.wi', Name, Name, I), Function('init.wj', Name, Name, I)
        path.assume(ForAll([i, j], Implies(And(0 <= i, i < no, 0 <= j, j < np_, cellv(i, j)), Select(C, seqs.at(objs.s, i), seqs.at(props.s, j))),
                           patterns=[MultiPattern(seqs.at(objs.s, i), seqs.at(props.s, j))]))
        path.assume(ForAll([a_, b_], Implies(Select(C, a_, b_), And(0 <= wi(a_, b_), wi(a_, b_) < no, 0 <= wj(a_, b_), wj(a_, b_) < np_,
                                                                     seqs.at(objs.s, wi(a_, b_)) == a_, seqs.at(props.s, wj(a_, b_)) == b_,
                                                                     cellv(wi(a_, b_), wj(a_, b_)))), patterns=[Select(C, a_, b_)]))
        return DefPairs(path, C, '_pairs')
    g = dict(lib.builtins(), tools=tools, zip=FuncV('zip', zip_))
    dup = Or(Not(nodup(objs.s)), Not(nodup(props.s)))

    def finish(path, env, outcome):
        if outcome[0] == 'raise':
            path.oblige('post/ValueError-iff-duplicate-names', 'post', And(BoolVal(outcome[1] == 'ValueError'), dup))
            return
        path.oblige('post/accepted', 'post', Not(dup))
        ok = all(k in this.fields for k in ('_objects', '_properties', '_pairs')) and len(this.fields) == 3 \
            and this.fields['_objects'] is not this.fields['_properties']
        path.oblige('post/three-distinct-containers', 'post', BoolVal(ok))
        if not ok:
            return
        O, P, C = view(this)
        path.oblige('post/names-as-given', 'post', And(O == objs.s, P == props.s))
        # WF and the no-residue invariant hold initially
        path.oblige('post/WF', 'post', And(nodup(O), nodup(P)))
        path.oblige('post/INV', 'post', inv_pairs(O, P, C))
    return ({'self': this, 'objects': objs, 'properties': props, 'bools': bools}, {'globals': g, 'closed_form': {'SetComp#0': pairs_closed}}, finish)


register(Unit('definitions.__init__', D, 'Triple.__init__', _unit(_triple_init),
              assumptions=['requires rectangular input (one row per object, one cell per property); zip pairs position-wise',
                           'contract of Unique.__init__ (unit tools.Unique.__init__); lemma.fold_len (Lean: lemmas/Seq.lean lemma_fold_len; validated by enumeration)'],
              linkage=[('concepts.Definition.__init__', None)]))


def _triple_eq(path):
    d, other = make_definition(path, 'self'), make_definition(path, 'other')
    Triple = ObjV('class', {}, name='Triple')

    def isinstance_(p, a, k):
        return BoolV(a[0] is other and a[1] is Triple)
    for dd in (d, other):
        for ax in ('_objects', '_properties'):
            u = dd.fields[ax]
            # contract of Set.__eq__ on Unique (stdlib mixin): same elements, order ignored
            _method(u, '__eq__', lambda p, a, k: BoolV(seqs.setof(a[0].s) == seqs.setof(a[1].s)))
        _method(dd.fields['_pairs'], '__eq__', lambda p, a, k: BoolV(a[0].P == a[1].P))

    def finish(path, env, outcome):
        if outcome[0] != 'return':
            path.oblige('post/no-exception', 'post', BoolVal(False))
            return
        spec = And(seqs.setof(d.O0) == seqs.setof(other.O0), seqs.setof(d.P0) == seqs.setof(other.P0), d.C0 == other.C0)
        path.oblige('post/equal-iff-same-names-and-same-true-cells', 'post', truthy(outcome[1]) == spec)
    return {'self': d, 'other': other}, {'globals': dict(lib.builtins(), isinstance=FuncV('isinstance', isinstance_), Triple=Triple)}, finish


def _triple_eq_plain(path):
    """comparison with something that is not a Triple: the own observable triple (objects, properties, bools) == other (order sensitive)"""
    Triple = ObjV('class', {}, name='Triple')
    other = ObjV('Arg', {}, name='other')
    results = []
    o, pr, b = (ObjV('Arg', {}, name='self.' + n) for n in ('objects', 'properties', 'bools'))
    this = ObjV('Definition', {'objects': o, 'properties': pr, 'bools': b}, name='self')

    def eq(p, a, k):
        r = BoolV(p.fresh_bool('triple == other'))
        results.append((a, r))
        return r
    other.fields['__eq__'] = FuncV('==', eq)       # (tuple) == other is evaluated through the comparison hook: args (other, tuple)

    def finish(path, env, outcome):
        ok = outcome[0] == 'return' and len(results) == 1 and isinstance(outcome[1], BoolV)
        path.oblige('post/the-result-of-comparing-the-own-triple-with-other', 'post', (truthy(outcome[1]) == results[0][1].t) if ok else BoolVal(False))
        if ok:
            lhs = results[0][0][1]
            path.oblige('post/triple-is-(objects, properties, bools)', 'post',
                        BoolVal(isinstance(lhs, TupleV) and len(lhs.items) == 3 and lhs.items[0] is o and lhs.items[1] is pr and lhs.items[2] is b))
    g = dict(lib.builtins(), isinstance=FuncV('isinstance', lambda p, a, k: BoolV(False)), Triple=Triple)
    return {'self': this, 'other': other}, {'globals': g}, finish


register(Unit('definitions.__eq__.plain', D, 'Triple.__eq__', _unit(_triple_eq_plain),
              assumptions=['tuple == other is the builtin comparison (element-wise, order sensitive)'], linkage=[('concepts.Definition.__eq__', None)]))
register(Unit('definitions.__eq__', D, 'Triple.__eq__', _unit(_triple_eq),
              assumptions=['Set.__eq__ on tools.Unique compares element sets (order-insensitive; stdlib mixin, assumed); comparison with a plain triple: unit definitions.__eq__.plain'],
              linkage=[('concepts.Definition.__eq__', None)]))


# ---- the observable triple: objects / properties / bools

def _observable(which):
    def body(path):
        d = make_definition(path)

        def tuple_(p, a, k):
            (v,) = a
            if isinstance(v, UniqueObj):
                r = ObjV('tuple', {}, name='tuple(%s)' % v.name)
                r.s = v.s
                return r
            if isinstance(v, (IterV, SeqV)):
                return SeqV(v.at, v.length, 'tuple(%s)' % v.name)
            raise Unsupported('tuple of %r' % (v,))

        def finish(path, env, outcome):
            if outcome[0] != 'return':
                path.oblige('post/no-exception', 'post', BoolVal(False))
                return
            r = outcome[1]
            if which in ('objects', 'properties'):
                want = d.O0 if which == 'objects' else d.P0
                path.oblige('post/the-names-in-order', 'post', (r.s == want) if getattr(r, 's', None) is not None else BoolVal(False))
            else:
                ok = isinstance(r, (IterV, SeqV))
                path.oblige('post/one-row-per-object', 'post', (r.length == seqs.slen(d.O0)) if ok else BoolVal(False))
                if ok:
                    i, j = path.fresh_int('i'), path.fresh_int('j')
                    row = r.at(i)
                    okr = isinstance(row, (IterV, SeqV))
                    path.oblige('post/one-cell-per-property', 'post', (row.length == seqs.slen(d.P0)) if okr else BoolVal(False))
                    if okr:
                        path.oblige('post/cell-is-membership-of-the-pair', 'post',
                                    truthy(row.at(j)) == Select(d.C0, seqs.at(d.O0, i), seqs.at(d.P0, j)))
            path.oblige('post/unchanged', 'post', And(view(d)[0] == d.O0, view(d)[1] == d.P0, view(d)[2] == d.C0))
        return {'self': d}, {'globals': dict(lib.builtins(), tuple=FuncV('tuple', tuple_))}, finish
    return body


for _w in ('objects', 'properties', 'bools'):
    register(Unit('definitions.' + _w, D, 'Definition.' + _w, _unit(_observable(_w)),
                  assumptions=['tuple(Unique) lists the items in order (unit tools.Unique.__iter__)'],
                  linkage=[('concepts.Definition.%s.fget' % _w, None)]))


def _lemma_fresh_equal():
    def prove(path):
        O, P = Const('O', Seq), Const('P', Seq)
        C = Const('C', PSet)
        path.assume(And(nodup(O), nodup(P), inv_pairs(O, P, C)))
        # the pair set of a fresh definition built from the own triple: the true cells within the table
        path.oblige('fresh-definition-has-the-same-pairs', 'lemma',
                    ForAll([a_, b_], And(mem(O, a_), mem(P, b_), Select(C, a_, b_)) == Select(C, a_, b_), patterns=[Select(C, a_, b_)]))
    return axioms(), prove


register(Unit('lemma.fresh_equal', None, None, _lemma_fresh_equal,
              assumptions=['with WF and the no-residue invariant a definition equals (Triple.__eq__) the definition built from its own (objects, properties, bools)']))


# =============================================================================================
# stdlib Set / MutableSet mixins on tools.Unique (real source of the running interpreter): __sub__, __and__, __iand__
# -- the contracts `_unique_iand` / `_unique_and` used above are proved here instead of being assumed

def _stdlib_set_unit(which, other_kind):
    def body(path):
        from contracts.tools_unique import stdlib_path
        NSet = seqs.NSet
        y = Const('y', Name)
        this = UniqueObj(path, fresh_seq(path, 'self'), 'self', record=False)
        path.assume(nodup(this.s))
        s0 = this.s
        if other_kind == 'unique':
            other = UniqueObj(path, fresh_seq(path, 'other'), 'other', record=False)
            path.assume(nodup(other.s))
            other.isinstance_fn = lambda names: BoolVal(bool({'Set', 'Iterable', 'MutableSet'} & set(names)))
        else:
            other = NameSeqArg(path, 'other')
            other.isinstance_fn = lambda names: BoolVal('Iterable' in names)
        this.isinstance_fn = lambda names: BoolVal(bool({'Set', 'Iterable', 'MutableSet'} & set(names)))
        T = Const('set(other)', NSet)
        Tc = Const('not-in-other', NSet)
        path.assume(ForAll([y], Select(T, y) == mem(other.s, y), patterns=[Select(T, y), mem(other.s, y)]))
        path.assume(ForAll([y], Select(Tc, y) == Not(mem(other.s, y)), patterns=[Select(Tc, y)]))
        Ts = Const('set(self)', NSet)
        path.assume(ForAll([y], Select(Ts, y) == mem(s0, y), patterns=[Select(Ts, y), mem(s0, y)]))
        made = []

        def from_iterable(p, a, k):
            it = a[-1]
            from pyvc.engine import FilterV
            if isinstance(it, FilterV):
                # Unique(<filter of a label sequence>): contract of Unique.__init__ (unit tools.Unique.__init__) on the filtered sequence
                base = it.base
                j = p.fresh_int('j')
                src_seq = getattr(base, 'seq_term', None)
                okb = src_seq is not None
                p.oblige('pre@_from_iterable/filter-of-a-label-sequence', 'pre@call', BoolVal(okb))
                if not okb:
                    raise Unsupported('filter base')
                p.oblige('pre@_from_iterable/elements-are-the-sequence-elements', 'pre@call', it.elt(j).t == seqs.at(src_seq, j))
                sel = it.cond(j)
                # which set the condition selects: decided by the harness from the two candidates (not in other / in self)
                if src_seq is s0 or src_seq is this.s:
                    p.oblige('pre@_from_iterable/condition', 'pre@call', sel == Select(Tc, seqs.at(src_seq, j)))
                    kept = seqs.keep(src_seq, Tc)
                else:
                    p.oblige('pre@_from_iterable/condition', 'pre@call', sel == Select(Ts, seqs.at(src_seq, j)))
                    kept = seqs.keep(src_seq, Ts)
                p.assume([seqs.st_fold_len(kept), seqs.st_fold_facts(seqs.empty, kept, seqs.slen(kept)), seqs.st_mem_infirst(kept)])
                u = UniqueObj(p, fold_add(seqs.empty, kept, seqs.slen(kept)), 'Unique(filter)')
            else:
                src = seq_of_iterable(it)
                p.assume([seqs.st_fold_len(src), seqs.st_fold_facts(seqs.empty, src, seqs.slen(src)), seqs.st_mem_infirst(src)])
                u = UniqueObj(p, fold_add(seqs.empty, src, seqs.slen(src)), 'Unique(%s)' % getattr(it, 'name', 'it'))
                u.isinstance_fn = lambda names: BoolVal(bool({'Set', 'Iterable', 'MutableSet'} & set(names)))
            made.append(u)
            return u
        for o in (this, other):
            if isinstance(o, UniqueObj):
                _method(o, '_from_iterable', from_iterable)
                orig_iter = o.fields['__iter__']

                def it_(p, a, k, _o=o):
                    r = _o.iterv()
                    r.seq_term = _o.s
                    return r
                _method(o, '__iter__', it_)
        if isinstance(other, NameSeqArg):
            def it2(p, a, k):
                r = IterV(lambda kk: TermV(seqs.at(other.s, kk)), seqs.slen(other.s), 'iter(other)')
                r.seq_term = other.s
                return r
            _method(other, '__iter__', it2)
        NotImpl = ObjV('NotImplementedType', {}, name='NotImplemented')
        g = dict(lib.builtins(), Set=ClassV('Set'), Iterable=ClassV('Iterable'), NotImplemented=NotImpl)
        extra = {'globals': g}
        env = {'self': this, ('it' if which == '__iand__' else 'other'): other}
        if which == '__iand__':
            def sub_contract(p, a, k):
                # contract of Set.__sub__ on Unique (unit stdlib.Set.__sub__.*): the own elements not in the argument, in own order
                D = UniqueObj(p, seqs.keep(this.s, Tc), '(self - it)')
                return D
            _method(this, '__sub__', sub_contract)
            E = seqs.keep(s0, Tc)

            def inv(e, k):
                s = this.s
                return [('removed-so-far', s == seqs.erase_fold(s0, E, k)),
                        ('members', ForAll([y], mem(s, y) == And(mem(s0, y), Not(seqs.infirst(E, y, k))), patterns=[mem(s, y)])),
                        ('nodup', nodup(s))]
            spec = LoopSpec(inv)
            spec.havoc_objs = [this]
            extra[0] = spec

        def finish(path, env_, outcome):
            if outcome[0] != 'return':
                path.oblige('post/no-exception', 'post', BoolVal(False))
                return
            r = outcome[1]
            if which == '__iand__':
                path.assume([seqs.st_erase_fold_keep(s0, T, Tc), seqs.st_mem_infirst(seqs.keep(s0, Tc))])
                path.oblige('post/returns-self', 'post', BoolVal(r is this))
                path.oblige('post/keeps-the-shared-names-in-the-own-order', 'post', this.s == seqs.keep(s0, T))
                path.oblige('post/other-unchanged', 'post', other.s == other.s0 if hasattr(other, 's0') else BoolVal(True))
            elif which == '__sub__':
                path.oblige('post/new-Unique', 'post', BoolVal(isinstance(r, UniqueObj) and r is not this and r in made))
                if isinstance(r, UniqueObj):
                    path.oblige('post/own-names-not-in-other-in-own-order', 'post', r.s == seqs.keep(s0, Tc))
                path.oblige('post/self-unchanged', 'post', this.s == s0)
            else:
                path.oblige('post/new-Unique', 'post', BoolVal(isinstance(r, UniqueObj) and r is not this and r in made))
                if isinstance(r, UniqueObj):
                    # the shared names in the order of the RIGHT operand
                    path.oblige('post/shared-names-in-the-order-of-other', 'post', r.s == seqs.keep(other.s, Ts))
                path.oblige('post/self-unchanged', 'post', this.s == s0)
        return env, extra, finish
    return body


def _register_stdlib_set():
    from contracts.tools_unique import stdlib_path
    sp = stdlib_path()
    if not sp:
        return
    for which, cls in (('__sub__', 'Set'), ('__and__', 'Set'), ('__iand__', 'MutableSet')):
        for kind in (('unique', 'sequence') if which != '__and__' else ('unique',)):
            register(Unit('stdlib.%s.%s.%s' % (cls, which, kind), 'ABS:' + sp, '%s.%s' % (cls, which), _unit(_stdlib_set_unit(which, kind)),
                          assumptions=['the stdlib mixin source of the interpreter that runs the library (3.12.1) is read like repository code',
                                       'contracts of Unique.__init__ / __iter__ / __contains__ / discard (units tools.Unique.*); '
                                       'lemmas fold_len, erase_fold_keep (Lean: lemmas/Seq.lean)'],
                          linkage=[('concepts.tools.Unique.%s' % which, None)]))


_register_stdlib_set()
