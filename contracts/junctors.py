"""Contracts for concepts/junctors.py (C16; DESIGN section C16).

RelationMeta.__call__: the classification is decided by COMPLETE enumeration of the finite pattern domain against the real
class table.  The table (`_RelationMeta__map`, built at import time from the docstrings by the metaclass) is obtained by
executing the real module file; the function body is then symbolically executed once per table entry (and once for a
pattern outside the table) with symbolic left/right.  Oracle: the table of DESIGN section C16 (from the property statement).

Relations.__init__: the dataflow shape of the construction (filter by Contingency, 2-combinations in index order, pairing of
the two columns, unary part first, list initialised once, stable sort by `order` afterwards).
"""
import importlib.util
import os

from z3 import And, BoolVal, Int, Not, Or

from pyvc import bits, extract
from pyvc.engine import (BoolV, ClassV, FilterV, FuncV, IntV, IterV, ListV, NONE, ObjV, PyRaise, SeqV, StrV, TupleV, Unsupported,
                         truthy)
from contracts import lib
from contracts.registry import Unit, register

T, F = True, False
# oracle (statement): occurring combinations (left,right) -> (kind, rank, swapped orientation)
ORACLE_BINARY = {
    frozenset({(T, T), (F, F)}): ('equivalent', 1, False),
    frozenset({(T, F), (F, T)}): ('complement', 2, False),
    frozenset({(T, F), (F, T), (F, F)}): ('incompatible', 3, False),
    frozenset({(T, T), (F, T), (F, F)}): ('implication', 4, False),     # left -> right, left is the narrower
    frozenset({(T, T), (T, F), (F, F)}): ('implication', 4, True),      # swapped: right -> left
    frozenset({(T, T), (T, F), (F, T)}): ('subcontrary', 6, False),
    frozenset({(T, T), (T, F), (F, T), (F, F)}): ('orthogonal', 7, False),
}
ORACLE_UNARY = {frozenset({T, F}): ('contingency', 0), frozenset({F}): ('contradiction', -2), frozenset({T}): ('tautology', -1)}


def load_real_module():
    import types
    src, _ = extract.parse_file('concepts/junctors.py')       # the same text the VCs are generated from
    mod = types.ModuleType('junctors_under_test')
    exec(compile(src, os.path.join(extract.REPO, 'concepts', 'junctors.py'), 'exec'), mod.__dict__)   # runs the metaclass:
    return mod                                                 # the table is built from the docstrings by the real code


def _call_unit():
    def make():
        mod = load_real_module()
        table = dict(getattr(mod.RelationMeta, '_RelationMeta__map'))

        def harness(path):
            entries = sorted(table.items(), key=lambda kv: (len(kv[0]), sorted(map(repr, kv[0]))))
            # choose the pattern of this path: one of the table entries, or a pattern outside the table
            k = path.choose([BoolVal(True)] * (len(entries) + 1))
            classes = {}

            def cls_obj(c):
                if c not in classes:
                    o = ObjV('class', {'binary': BoolV(bool(getattr(c, 'binary', False)))}, name=c.__name__)
                    o.real = c
                    classes[c] = o
                return classes[c]
            for c in set(table.values()) | {mod.Implication, mod.Replication}:
                cls_obj(c)
            if k < len(entries):
                pattern, real_cls = entries[k]
            else:
                pattern, real_cls = frozenset({(T, T)}), None
            pairs = ObjV('Pairs', {}, name='pairs')
            pairs.pattern = pattern

            def frozenset_(p, args, kw):
                (a,) = args
                o = ObjV('frozenset', {}, name='frozenset(pairs)')
                o.pattern = a.pattern
                return o

            def map_get(p, args, kw):
                key = args[-1]
                if key.pattern in table:
                    return cls_obj(table[key.pattern])
                raise PyRaise('KeyError')
            this = ObjV('metaclass-instance', {'_RelationMeta__map': ObjV('dict', {'__getitem__': FuncV('dict.__getitem__', map_get)})},
                        name='self')
            made = []

            def super_(p, args, kw):
                (first,) = args
                o = ObjV('super', {}, name='super()')

                def call(p2, a2, k2):
                    inst = ObjV('instance', {}, name='instance')
                    inst.of, inst.args = first, list(a2[1:] if a2 and a2[0] is o else a2)
                    made.append(inst)
                    return inst
                o.fields['__call__'] = FuncV('type.__call__', call)
                return o
            left, right = ObjV('Label', {}, name='left'), ObjV('Label', {}, name='right')
            g = dict(lib.builtins(), frozenset=FuncV('frozenset', frozenset_), super=FuncV('super', super_),
                     Replication=cls_obj(mod.Replication), Implication=cls_obj(mod.Implication))
            env = {'self': this, 'left': left, 'right': right, 'pairs': pairs}

            def finish(path, env_, outcome):
                if real_cls is None:
                    path.oblige('post/pattern-outside-the-table-raises-KeyError', 'post', BoolVal(outcome == ('raise', 'KeyError')))
                    return
                if outcome[0] != 'return':
                    path.oblige('post/no-exception', 'post', BoolVal(False))
                    return
                inst = outcome[1]
                ok = len(made) == 1 and inst is made[0] and hasattr(inst.of, 'real')
                path.oblige('post/one-instance', 'post', BoolVal(ok))
                if not ok:
                    return
                c = inst.of.real
                if pattern in ORACLE_BINARY:
                    kind, rank, swapped = ORACLE_BINARY[pattern]
                    exp_args = [right, left] if swapped else [left, right]
                    path.oblige('post/kind-and-rank', 'post', BoolVal(c.kind == kind and c.order == rank and c.binary is True))
                    path.oblige('post/orientation', 'post', BoolVal(len(inst.args) == 2 and inst.args[0] is exp_args[0] and inst.args[1] is exp_args[1]))
                elif pattern in ORACLE_UNARY:
                    kind, rank = ORACLE_UNARY[pattern]
                    path.oblige('post/kind-and-rank', 'post', BoolVal(c.kind == kind and c.order == rank and c.binary is False))
                    path.oblige('post/unary-arguments', 'post', BoolVal(len(inst.args) == 2 and inst.args[0] is left and inst.args[1] is pairs))
                else:
                    path.oblige('post/table-has-only-oracle-patterns', 'post', BoolVal(False))
            return env, {'globals': g}, finish
        return bits.axioms(), harness
    return make


def _table_lemma():
    """The domain lemma + table completeness, by finite enumeration (16 + 3 cases): two contingent columns can only produce the 7
    binary oracle patterns; every oracle pattern is a key of the real table and nothing else is."""
    def prove(path):
        import itertools
        mod = load_real_module()
        table = getattr(mod.RelationMeta, '_RelationMeta__map')
        combos = [(T, T), (T, F), (F, T), (F, F)]
        possible = set()
        for r in range(1, 5):
            for s in itertools.combinations(combos, r):
                lefts, rights = {a for a, _ in s}, {b for _, b in s}
                if lefts == {T, F} and rights == {T, F}:
                    possible.add(frozenset(s))
        path.oblige('contingent-columns-give-only-oracle-patterns', 'lemma', BoolVal(possible == set(ORACLE_BINARY)))
        path.oblige('table-keys-are-exactly-the-oracle-patterns', 'lemma', BoolVal(set(table) == set(ORACLE_BINARY) | set(ORACLE_UNARY)))
    return bits.axioms(), prove


register(Unit('junctors.RelationMeta.__call__', 'concepts/junctors.py', 'RelationMeta.__call__', _call_unit(),
              assumptions=['the class table is read from the real module after import (the docstring parser is not verified, its result is)',
                           'type.__call__ constructs an instance of the class bound to `self` at the time of the call'],
              linkage=[('type(concepts.junctors.Relation).__call__', None)]))
register(Unit('lemma.relation_patterns', None, None, _table_lemma, assumptions=['finite enumeration of the 16 pattern subsets']))


# ---- Relations.__init__: dataflow shape

def _relations_init_unit():
    def make():
        def harness(path):
            calls = []
            include_unary = path.fresh_bool('include_unary')

            from z3 import Function, IntSort, IntVal
            from pyvc.engine import ClosureV, IterV, LoopSpec
            from contracts import formats_lines as fl
            # an opaque iterable: its items are known only as "item t of this iterable" (LenF / ElemF over the python-side number of the
            # descriptor); iterating it by a loop gives them in order
            LenF, ElemF = Function('iterable.len', IntSort(), IntSort()), Function('iterable.item', IntSort(), IntSort(), IntSort())
            descs = []

            class Desc(ObjV):
                def __init__(self, kind, **kw):
                    ObjV.__init__(self, kind, {}, name=kind)
                    self.__dict__.update(kw)
                    self.number = len(descs)
                    descs.append(self)
                    self.fields['__iter__'] = FuncV('iter', lambda p, a, k: IterV(self.item, LenF(IntVal(self.number)), 'iter(%s)' % kind))

                def item(self, t):
                    o = ObjV('Item', {}, name='%s[%s]' % (self.cls, t))
                    o.ident = ElemF(IntVal(self.number), t)
                    o.of = (self, t)
                    return o
            items, booleans = Desc('items'), Desc('booleans')
            # the content of the list under construction: what list.__init__ was given, then what was appended (ghost trace)
            trace = fl.Trace()

            def zip_(p, args, kw):
                return Desc('zip', args=list(args))

            def relation(p, args, kw):
                return Desc('Relation(...)', args=list(args))

            def combinations(p, args, kw):
                return Desc('combinations', args=list(args))

            def chain(p, args, kw):
                return Desc('chain', args=list(args))
            this = ObjV('Relations', {}, name='self')
            this.fields['sort'] = FuncV('list.sort', lambda p, a, k: calls.append(('sort', a, k, len(trace.segs))) or NONE)
            this.fields['append'] = FuncV('list.append', lambda p, a, k: trace.one(a[0] if len(a) == 1 and not k else TupleV(list(a))) or NONE)

            def super_(p, args, kw):
                o = ObjV('super', {}, name='super()')
                o.fields['__init__'] = FuncV('list.__init__', lambda p2, a2, k2: calls.append(('init', a2, k2, len(trace.segs))) or NONE)
                return o
            Contingency = ObjV('class', {}, name='Contingency')
            g = dict(lib.builtins(), zip=FuncV('zip', zip_), Relation=FuncV('Relation', relation), combinations=FuncV('combinations', combinations),
                     chain=FuncV('chain', chain), super=FuncV('super', super_), Contingency=Contingency)

            # comprehensions over descriptors: recorded structurally (target pattern, element AST evaluated on symbolic elements)
            def comp(interp, env_, node):
                gnode = node.generators[0]
                src = interp.eval(gnode.iter, env_)
                d = Desc('comprehension', src=src, node=node, env=dict(env_), interp=interp)
                return d
            closed = {'ListComp#0': comp, 'GeneratorExp#0': comp, 'GeneratorExp#1': comp}
            env = {'self': this, 'items': items, 'booleans': booleans, 'include_unary': BoolV(include_unary)}

            def elt_on(d, target_val):
                inner = dict(d.env)
                d.interp.assign(d.node.generators[0].target, target_val, inner)
                conds = [d.interp.eval(c, inner) for c in d.node.generators[0].ifs]
                return d.interp.eval(d.node.elt, inner), conds

            def finish(path, env_, outcome):
                if outcome[0] != 'return':
                    path.oblige('post/no-exception', 'post', BoolVal(False))
                    return
                names = [c[0] for c in calls]
                path.oblige('post/list-initialised-once-then-sorted', 'post', BoolVal(names == ['init', 'sort']))
                if names != ['init', 'sort']:
                    return
                unary = env_.get('unary')
                # unary part: one Relation(item, None, column) per (item, column) of zip(items, booleans)
                ok_u = isinstance(unary, Desc) and unary.cls == 'comprehension' and unary.src.cls == 'zip' and unary.src.args == [items, booleans]
                path.oblige('post/unary-shape', 'post', BoolVal(ok_u))
                if not ok_u:
                    return
                it, bl = ObjV('Label', {}, name='item'), ObjV('Column', {}, name='column')
                el, conds = elt_on(unary, TupleV([it, bl]))
                from pyvc.engine import NoneV
                path.oblige('post/unary-element', 'post', BoolVal(not conds and el.cls == 'Relation(...)' and len(el.args) == 3
                                                                    and el.args[0] is it and isinstance(el.args[1], NoneV) and el.args[2] is bl))
                binary = env_.get('binary')
                ok_b = isinstance(binary, Desc) and binary.cls == 'comprehension' and binary.src.cls == 'combinations' \
                    and len(binary.src.args) == 2 and isinstance(binary.src.args[1], IntV) and str(binary.src.args[1].t) == '2'
                path.oblige('post/binary-over-2-combinations', 'post', BoolVal(ok_b))
                if not ok_b:
                    return
                pool = binary.src.args[0]
                ok_p = isinstance(pool, Desc) and pool.cls == 'comprehension' and pool.src is unary
                path.oblige('post/combinations-of-the-unary-entries', 'post', BoolVal(ok_p))
                if not ok_p:
                    return
                u = ObjV('Unary', {'left': ObjV('Label', {}, name='u.left'), 'bools': ObjV('Column', {}, name='u.bools'),
                                    '__class__': ObjV('class', {}, name='SomeClass')}, name='u')
                pel, pconds = elt_on(pool, u)
                # kept iff the entry's class is Contingency (neither universal nor empty), as (label, column)
                okc = len(pconds) == 1
                path.oblige('post/filter-contingent', 'post', BoolVal(okc and isinstance(pel, TupleV) and pel.items[0] is u.fields['left']
                                                                       and pel.items[1] is u.fields['bools']))
                u.fields['__class__'] = Contingency
                _, pc2 = elt_on(pool, u)
                path.oblige('post/filter-is-class-identity-with-Contingency', 'post',
                            And(Not(truthy(pconds[0])), truthy(pc2[0])) if okc else BoolVal(False))
                l, lb, r, rb = (ObjV('X', {}, name=n) for n in ('l', 'lbools', 'r', 'rbools'))
                bel, bconds = elt_on(binary, TupleV([TupleV([l, lb]), TupleV([r, rb])]))
                okb = (not bconds and bel.cls == 'Relation(...)' and len(bel.args) == 3 and bel.args[0] is l and bel.args[1] is r
                       and getattr(bel.args[2], 'cls', None) == 'zip' and bel.args[2].args == [lb, rb])
                path.oblige('post/binary-element-pairs-the-two-columns', 'post', BoolVal(okb))
                # members: unary first then binary when requested, else binary only -- whichever way the list is filled: what
                # list.__init__ is given (chain(a, b) = a then b), then every iterable appended item by item by a loop, in order
                parts, whole = [], []
                init_args = [a for a in calls[0][1] if a is not this]
                if not calls[0][2] and len(init_args) <= 1:
                    for m in init_args:
                        parts.extend(m.args if getattr(m, 'cls', None) == 'chain' else [m])
                else:
                    parts.append(None)
                for sg in trace.segs:
                    t = path.fresh_int('t')
                    blk = sg[2](t) if sg[0] == 'many' else None
                    src = getattr(blk[0], 'of', None) if blk and len(blk) == 1 else None
                    if src is None or src[1] is not t:
                        parts.append(None)       # a single append, or a block that is not "item t of one iterable"
                        continue
                    parts.append(src[0])
                    whole.append(sg[1] == LenF(IntVal(src[0].number)))
                filled = BoolVal(calls[0][3] == 0 and calls[1][3] == len(trace.segs))       # nothing appended before __init__ / after sort
                if path.branch(include_unary):
                    path.oblige('post/members-with-unary', 'post',
                                And(filled, BoolVal(len(parts) == 2 and parts[0] is unary and parts[1] is binary), *whole))
                else:
                    path.oblige('post/members-binary-only', 'post', And(filled, BoolVal(len(parts) == 1 and parts[0] is binary), *whole))
                # stable sort by the documented rank (the key function: a lambda or a nested def, applied to a symbolic relation)
                sk = calls[1][2].get('key')
                okk = set(calls[1][2]) == {'key'} and isinstance(sk, (FuncV, ClosureV))
                if okk:
                    rr = ObjV('Rel', {'order': IntV(Int('rank'))}, name='r')
                    v = path.interp.call(sk, [rr], {})
                    okk = isinstance(v, IntV) and v is rr.fields['order']
                path.oblige('post/sorted-by-rank', 'post', BoolVal(okk))
            loops = {'globals': g, 'closed_form': closed}
            for n_ in [0, 1, 2, 3] + ['Accumulator#%d' % a_ for a_ in range(4)]:
                # a loop that appends the items of an iterable one by one: iteration k appends exactly item k of the iterable it walks
                # (`for m in it: self.append(m)` has the shape of an accumulator loop: keyed by its accumulator ordinal)
                loops[n_] = fl.emit_loop(trace, lambda k, _n=n_: [path.ghost['iter#%s' % _n].at(k)])
            return env, loops, finish
        return bits.axioms(), harness
    return make


register(Unit('junctors.Relations.__init__', 'concepts/junctors.py', 'Relations.__init__', _relations_init_unit(),
              assumptions=['itertools.combinations(..., 2): all unordered pairs in index order; chain: concatenation; zip: pairing; list.sort: stable, ascending by key',
                           'contract of RelationMeta.__call__ (unit junctors.RelationMeta.__call__)'],
              linkage=[('concepts.junctors.Relations.__init__', None)]))


# ---- Relations.tostring / __str__: printing is defined for every context, including when there is nothing to list

def _tostring_unit():
    from z3 import IntVal, Not, And

    def make():
        def harness(path):
            n = Int('len(self)')
            path.assume(n >= 0)

            from z3 import Function, BoolSort, IntSort, If
            isorth = Function('is_orthogonal', IntSort(), BoolSort())      # entry t is an Orthogonal

            def rel(t):
                cls = ObjV('class', {}, name='cls[%s]' % t)
                cls.ident = If(isorth(t), 0, 1)          # identity of the class object: Orthogonal or another relation class
                r = ObjV('Relation', {'left': ObjV('Label', {}, name='left'), 'right': ObjV('Label', {}, name='right'),
                                      'kind': StrV(None), '__class__': cls}, name='r[%s]' % t)
                r.pos = t
                return r
            this = SeqV(rel, n, 'self')
            excl = path.fresh_bool('exclude_orthogonal')

            def max_(p, args, kw):
                it = args[0]
                ln = it.length if isinstance(it, (IterV, SeqV)) else None
                if ln is None:
                    raise Unsupported('max of %r' % (it,))
                # builtin max: ValueError on an empty iterable unless a default is given
                p.oblige('pre@max/non-empty-or-default', 'pre@call', Or(ln > 0, BoolVal('default' in kw)))
                return IntV(p.fresh_int('width'))
            orth = ObjV('class', {}, name='Orthogonal')
            orth.ident = IntVal(0)
            joined = []

            def str_join(p, sep, it):
                joined.append((sep, it))
                return StrV(None)
            g = dict(lib.builtins(), max=FuncV('max', max_), str=FuncV('str', lambda p, a, k: StrV(None)),
                     len=FuncV('len', lambda p, a, k: IntV(p.fresh_int('len'))), Orthogonal=orth)

            def finish(path, env_, outcome):
                path.oblige('post/defined-for-every-list', 'post', BoolVal(outcome[0] == 'return' and isinstance(outcome[1], StrV)))
                # one line per listed entry, in order: every entry, or with exclude_orthogonal exactly the non-orthogonal ones
                from pyvc.engine import FilterV
                ok = len(joined) == 1 and getattr(joined[0][0], 'value', None) == '\n'
                path.oblige('post/lines-joined-by-newline', 'post', BoolVal(ok))
                if ok:
                    it = joined[0][1]
                    t = path.fresh_int('t')
                    if isinstance(it, FilterV):
                        path.oblige('post/exclude_orthogonal: a filter of the entries', 'post', And(excl, it.base.length == n))
                        n0 = len(path.pc)
                        path.pc.append(And(0 <= t, t < n))
                        path.oblige('post/exclude_orthogonal: kept iff not Orthogonal', 'post', it.cond(t) == Not(isorth(t)))
                        del path.pc[n0:]
                    else:
                        path.oblige('post/every-entry-listed', 'post',
                                    And(Not(excl), it.length == n) if isinstance(it, (IterV, SeqV)) else BoolVal(False))
            return {'self': this, 'exclude_orthogonal': BoolV(excl)}, {'globals': g, 'str_join': str_join}, finish
        return bits.axioms(), harness
    return make


register(Unit('junctors.Relations.tostring', 'concepts/junctors.py', 'Relations.tostring', _tostring_unit(),
              assumptions=['builtin max raises ValueError on an empty iterable unless default= is given; %-formatting and join are total on these operands'],
              linkage=[('concepts.junctors.Relations.tostring', None)]))


def _ctx_relations_unit():
    """Context.relations(include_unary): a NEW Relations object built by this call from (self.properties, the property columns
    self._extents.bools(), include_unary); nothing is stored on the context (a cached, shared list would leak edits between calls)."""
    def make():
        def harness(path):
            made, bools_calls = [], []
            props = ObjV('Arg', {}, name='self.properties')
            ext = ObjV('Vectors', {}, name='self._extents')

            def bools(p, args, kw):
                r = ObjV('Rows', {}, name='self._extents.bools()')
                bools_calls.append(r)
                return r
            ext.fields['bools'] = FuncV('Vectors.bools', bools)
            this = ObjV('Context', {'properties': props, '_extents': ext}, name='self')
            keys0 = set(this.fields)

            def relations_cls(p, args, kw):
                r = ObjV('Relations', {}, name='Relations(...)')
                r.made_with = (list(args), dict(kw))
                made.append(r)
                return r
            junctors = ObjV('module', {'Relations': FuncV('junctors.Relations', relations_cls)}, name='junctors')
            flag = BoolV(path.fresh_bool('include_unary'))

            def finish(path, env_, outcome):
                if outcome[0] != 'return':
                    path.oblige('post/no-exception', 'post', BoolVal(False))
                    return
                r = outcome[1]
                ok = len(made) == 1 and r is made[0]
                path.oblige('fresh/a-Relations-object-built-by-this-call', 'fresh', BoolVal(ok))
                if ok:
                    a, k = r.made_with
                    allargs = a + [k[n] for n in ('include_unary',) if n in k]
                    path.oblige('post/built-from-properties-columns-and-flag', 'post',
                                BoolVal(len(allargs) == 3 and allargs[0] is props and len(bools_calls) == 1 and allargs[1] is bools_calls[0]
                                        and allargs[2] is flag))
                path.oblige('frame/nothing-stored-on-the-context', 'frame', BoolVal(set(this.fields) == keys0))
            return {'self': this, 'include_unary': flag}, {'globals': dict(lib.builtins(), junctors=junctors)}, finish
        return bits.axioms(), harness
    return make


register(Unit('contexts.relations', 'concepts/contexts.py', 'Context.relations', _ctx_relations_unit(),
              assumptions=['self._extents.bools(): the property columns as boolean tuples (bitsets contract)',
                           'contract of Relations.__init__ (unit junctors.Relations.__init__)'],
              linkage=[('type(ctx).relations', None)]))
