#!/usr/bin/env python3
"""Print the markdown table of seeded changes (DESIGN 11.5) from seeded/RESULTS.json."""
import json, os
r = json.load(open(os.path.join(os.path.dirname(os.path.abspath(__file__)), 'seeded', 'RESULTS.json')))
for k in sorted(r):
    v = r[k]
    obl = [o for c in v['checks'].values() for o in c.get('failed_obligations', [])]
    obl = [o for o in obl if 'linkage' not in o][:2] or obl[:1]
    ded = '`' + '`, `'.join(o.split('[')[0] for o in obl) + '`' if v.get('deductive') else '-'
    bl = [l.split('replay=')[1].split(' ', 1)[1].split(':')[0] for c in v['checks'].values() for l in c['violations'] if '-bounded-' in l][:1]
    print('| %s | %s | %s | %s |' % (k, ', '.join(p for p, c in v['checks'].items() if c['exit'] == 1), ded, '`' + bl[0] + '`' if bl else '-'))
