"""Per-property configuration: proof units, bounded module, claimed level (see MANIFEST.json / DESIGN.md 6)."""

PROPS = {
    'C01': {
        'units': ['matrices.prime', 'matrices.double', 'matrices.doubleprime'],
        'bounded': 'c01',
        'level': 'proof',
        'proved_part': 'loop invariants and postconditions of the real closures prime/double/doubleprime for an arbitrary '
                       'PairEnv (all widths, all bit patterns): result = the Galois derivation of the table',
        'bounded_part': 'Context.intension/extension label forms, bitsets library contracts, Relation.__new__ establishing PairEnv',
        'technique': 'deductive verification: loop invariants + postconditions on the real closures, z3/cvc5; bounded run-time contracts as replay',
        'level_text': 'All obligations (invariant entry/preservation, index safety, termination variant, postcondition) of the real '
                      'prime/double/doubleprime closures are discharged for unbounded integers, i.e. all widths and all bit patterns.',
        'level_note': 'Assumes the stated Python semantics, the BITS axioms, and that Relation.__new__ (bitsets library) establishes PairEnv; '
                      'the label-level API (frommembers/members) is covered by the bounded side only.',
    },
}

# properties not claimed (yet), each with the reason; kept current with MANIFEST.json by tools_manifest.py
NOT_APPLICABLE = {pid: 'check under construction in this session: contracts and bounded module not yet registered'
                  for pid in ['C%02d' % i for i in range(2, 21)]}
for _p in PROPS:
    NOT_APPLICABLE.pop(_p, None)
