"""Per-property configuration: proof units, bounded module, claimed level (MANIFEST.json is generated from this).

level: 'proof'  - every obligation of the units is discharged for all inputs; the property (or the stated part)
                  follows from the contracts; bounded side is replay/counterexample finder only
       'other'  - mixed: some functions proved, the rest covered by the labelled bounded stand-in
       'exploration' - bounded stand-in only (run-time contracts on the real code over a stated scope)
"""

CLOSURES = ['matrices.prime', 'matrices.double', 'matrices.doubleprime']
GALOIS = ['lemma.galois.O', 'lemma.galois.P', 'lemma.galois2.O', 'lemma.galois2.P']
BOUNDED_TECH = 'bounded stand-in: run-time contracts on the real functions against a brute-force oracle over an enumerated, stated scope'

PROPS = {
    'C01': {
        'units': CLOSURES + ['contexts.intension', 'contexts.extension'],
        'bounded': 'c01', 'level': 'proof',
        'proved_part': 'loop invariants, index safety, termination and postconditions of the real closures prime/double/doubleprime '
                       'for an arbitrary PairEnv (all widths, all bit patterns): result = the Galois derivation of the table; '
                       'intension/extension = Up/Dn of the named set in raw and label form, KeyError exactly on unknown names',
        'bounded_part': 'bitsets library contracts (frommembers, members), Relation.__new__ establishing PairEnv; replay',
        'technique': 'contract-based deductive verification: loop invariants + postconditions on the real closures and API methods, VCs from the real AST, z3/cvc5',
        'level_text': 'All obligations (invariant entry/preservation, index safety, termination variant, postcondition) of the real '
                      'prime/double/doubleprime closures and of intension/extension are discharged over unbounded integers, i.e. for all widths and bit patterns.',
        'level_note': 'Assumes the stated Python semantics, the BITS axioms, that Relation.__new__ (bitsets library) establishes PairEnv and the '
                      'bitsets contracts of frommembers/members; those are covered by the bounded side only.',
    },
    'C02': {
        'units': ['contexts.getitem'] + GALOIS,
        'bounded': 'c02', 'level': 'other',
        'proved_part': 'Context.__getitem__ returns (Cl(A),Up(A)) / (Dn(B),Cl\'(B)) in this order, raw and label form; closure laws (extensive, '
                       'monotone, idempotent, least) as z3 lemmas from the definitions',
        'bounded_part': 'Lattice.__call__/__getitem__ identity of the returned member; establishment of LatInv',
        'technique': 'contract-based deductive verification of Context.__getitem__ + z3-proved closure lemmas; bounded stand-in for the lattice lookups',
        'level_text': 'The context-level lookup is proved for all inputs; closure-operator laws are proved as lemmas; lattice lookups are bounded.',
        'level_note': 'Assumes CtxInv (label disjointness) and bitsets contracts; lattice member identity is checked only on the bounded scope.',
    },
    'C07': {
        'units': ['members.join', 'members.meet', 'lemma.meet_closed.O'] + GALOIS,
        'bounded': 'c07', 'level': 'other',
        'proved_part': 'binary Concept.join/meet return the member whose extent is Cl(e1|e2) resp. e1&e2, relative to LatInv.1/4; '
                       'intersection of extents is an extent (lemma)',
        'bounded_part': 'n-ary Lattice.join/meet, algebraic laws, establishment of LatInv',
        'technique': 'contract-based deductive verification of binary join/meet relative to the lattice invariant; bounded stand-in for the n-ary forms',
        'level_text': 'Binary join/meet are proved relative to LatInv; n-ary forms and LatInv establishment are bounded.',
        'level_note': 'LatInv (mapping defined exactly on extents, one member per extent) is an assumption here; bounded side checks it.',
    },
    'C08': {
        'units': ['members.' + n for n in ('implies', 'subsumes', 'properly_implies', 'properly_subsumes', 'incompatible_with',
                                            'complement_of', 'subcontrary_with', 'orthogonal_to')],
        'bounded': 'c08', 'level': 'proof',
        'proved_part': 'truthiness of each of the eight real predicates equals the set-theoretic statement of the property, for all extents',
        'bounded_part': 'intent-duality (x<=y iff intent(y) subset intent(x)) and partial-order laws on enumerated lattices; replay',
        'technique': 'contract-based deductive verification: postconditions of the eight straight-line predicates over unbounded bitset integers',
        'level_text': 'Each predicate is proved equal (by truthiness) to the statement\'s definition for all pairs of object sets of any width.',
        'level_note': 'Relative to LatInv.2 (supremum extent = all objects); operators are the same function objects (linkage check).',
    },
    'C18': {
        'units': ['contexts.minimize'],
        'bounded': 'c18', 'level': 'other',
        'proved_part': '_minimize is the filter of intent.powerset() by Dn(S) = extent, and yields just the intent for an empty extent',
        'bounded_part': 'powerset() order/exhaustiveness (library), Concept.attributes/minimal label forms, Infimum.minimal',
        'technique': 'contract-based deductive verification of the generator _minimize (yields clause) against the powerset library contract; bounded stand-in for wrappers',
        'level_text': 'The generator is proved to be exactly the specified filter, relative to the assumed powerset contract.',
        'level_note': 'powerset() shortlex order and exhaustiveness are an assumed library contract, checked on the bounded side.',
    },
}

for _pid, _text in [
    ('C03', 'lattice contains exactly the formal concepts'), ('C04', 'concept generators agree'),
    ('C05', 'neighbor links are the covering relation'), ('C06', 'canonical order and ranks'),
    ('C09', 'upset/downset traversals'), ('C10', 'reduced labelling'), ('C11', 'structured persistence'),
    ('C12', 'text formats round-trip'), ('C13', 'definition edit histories match the model'),
    ('C14', 'derived definitions correct and unaliased'), ('C15', 'invariance under relabelling/duplication/transposition'),
    ('C16', 'relations() classification'), ('C17', 'determinism across hash seeds'),
    ('C19', 'input validation'), ('C20', 'graphviz export'),
]:
    PROPS[_pid] = {
        'units': [], 'bounded': _pid.lower(), 'level': 'exploration',
        'proved_part': '', 'bounded_part': 'everything (%s)' % _text,
        'technique': BOUNDED_TECH + ' (deductive contracts for this property not yet discharged)',
        'level_text': 'Bounded only: every clause of the property as a run-time contract on the real code over the stated scope.',
        'level_note': 'No unbounded claim. The scope is stated in the evidence file (bounded_scope).',
    }

PROPS['C05'].update({
    'units': ['lindig.neighbors', 'contexts.neighbors', 'contexts._neighbors', 'matrices.doubleprime'] + GALOIS,
    'level': 'other',
    'proved_part': 'lindig.neighbors yields exactly the upper covers of an extent, each once (loop invariant + yields clause, '
                   'lemma L-LINDIG and corollary cover_unique_gen proved in Lean); Context.neighbors = covers of the generated concept',
    'bounded_part': 'stored upper/lower_neighbors links of lattice members and their converse (established by lindig.lattice/Lattice.__init__)',
    'technique': 'contract-based deductive verification of the Lindig step (invariant, yields clause, Lean-proved lemma instance); bounded stand-in for stored links',
    'level_text': 'The cover computation is proved for all contexts and all extents; the stored links built by the worklist are bounded.',
    'level_note': 'SMT<->Lean transcription of L-LINDIG by hand; bitsets atomic() contract assumed; stored links bounded only.',
})
PROPS['C03'].update({
    'units': ['lindig.neighbors', 'matrices.doubleprime'],
    'level': 'other',
    'proved_part': 'the Lindig step (neighbors): exactly the upper covers; Lean lemma L-WORKLIST (a family containing Cl(0) and closed under covers is all of Ext)',
    'bounded_part': 'the worklist of lindig.lattice and the constructor Lattice.__init__ (exhaustive <= 3x3 quick / n*m <= 12 thorough, stated families beyond)',
    'technique': 'contract-based deductive verification of lindig.neighbors + Lean lemmas; bounded stand-in for the worklist and constructor',
    'level_text': 'neighbors proved; worklist and constructor bounded, not proved.',
    'level_note': 'The worklist loop of lindig.lattice (aliased growing lists, heap) is not under contract yet.',
})
PROPS['C09'].update({
    'units': ['common.iterunion'],
    'level': 'other',
    'proved_part': 'iterunion yields exactly the items reachable from the seeds, in strictly increasing key order, each once '
                   '(heap/ghost-set invariant I1-I5, lemma L-REACH proved in Lean), for any sortkey/next_concepts satisfying the stated requirements',
    'bounded_part': 'the wrappers upset/downset/upset_union/downset_union instantiate it correctly (index/upper, dindex/lower), tools.maximal',
    'technique': 'contract-based deductive verification of the worklist generator iterunion (ghost sets, heap contract, Lean lemma); bounded stand-in for wrappers',
    'level_text': 'The traversal engine is proved for all inputs satisfying its precondition; the four wrappers and maximal are bounded.',
    'level_note': 'heapq contract assumed (multiplicities abstracted); termination not proved; wrappers bounded.',
})
PROPS['C14'].update({
    'units': ['contexts.__eq__', 'contexts.__ne__'],
    'level': 'other',
    'proved_part': 'Context.__eq__/__ne__: equal exactly when the (objects, properties, bools) triples are equal; NotImplemented for non-contexts',
    'bounded_part': 'derivations copy/union/intersection/take/transposed/inverted (tables, aliasing), Context<->Definition round trip, shape/fill_ratio/crc32 agreement',
    'technique': 'contract-based deductive verification of Context equality; bounded stand-in (model-based, exhaustive over a small universe) for the derivations',
    'level_text': 'Context equality proved; derivations bounded.',
    'level_note': 'The Definition derivations are heap-manipulating; not under contract yet.',
})
PROPS['C20'].update({
    'units': ['visualize.lattice'],
    'level': 'other',
    'proved_part': 'the call trace of visualize.lattice on graphviz.Digraph: per concept one node, label edges exactly when labelled with the callbacks '
                   'applied to exactly those names, one edge to each lower neighbour; nothing else; relative to LatInv.5/7',
    'bounded_part': 'graphviz renders one statement per call (DOT source parsed back), LatInv establishment, Lattice.graphviz pass-through',
    'technique': 'contract-based deductive verification of the Graphviz call trace (ghost trace, per-iteration segment obligation); bounded parse-back of the DOT source',
    'level_text': 'Call trace proved relative to the lattice invariant and the assumed renderer; rendering bounded.',
    'level_note': 'graphviz.Digraph is external (assumed contract, parsed back on the bounded side).',
})

PROPS['C04'].update({
    'units': ['fcbo.fast_generate_from', 'fcbo.fcbo_dual', 'algorithms.iterconcepts', 'algorithms.get_concepts', 'common.frompairs',
              'lemma.line_closed', 'lemma.meet_closed.O', 'lemma.meet_closed.P'] + GALOIS,
    'level': 'other',
    'proved_part': 'soundness of both FCbO generators (every stack entry and every yielded pair is a formal concept; index safety); '
                   'wrappers iterconcepts/get_concepts/frompairs return the same pairs in the same order, get_concepts a list allocated per call',
    'bounded_part': 'exactly-once and completeness of FCbO (canonicity test + inherited failed sets), agreement with context.lattice',
    'technique': 'contract-based deductive verification of the FCbO soundness invariant and of the wrappers; bounded stand-in for completeness/uniqueness',
    'level_text': 'Soundness and wrappers proved for all contexts; completeness and uniqueness bounded only.',
    'level_note': 'The completeness/uniqueness argument of FCbO is a protocol-level induction that is not attempted; stack abstraction as stated.',
})
PROPS['C19'].update({
    'units': ['contexts.__init__'],
    'level': 'other',
    'proved_part': 'Context.__init__ returns normally iff both name lists are non-empty, duplicate-free, disjoint and bools is one row per object '
                   'with one cell per property; otherwise ValueError before any Relation is built; on success the fields are the Relation\'s vectors/classes',
    'bounded_part': 'fromdict validation chain; faithfulness of objects/properties/bools (bitsets frombools/bools contracts)',
    'technique': 'contract-based deductive verification of the constructor\'s iff-postcondition; bounded stand-in (single and double corruptions) for fromdict',
    'level_text': 'Constructor validation proved for all well-typed inputs; fromdict and faithfulness bounded.',
    'level_note': 'Input abstracted as (length, duplicate-freeness, disjointness, row count, uniform row length); builtins assumed.',
})

REL = 'relative to LatInv (established by Lattice.__init__/_fromlist: see C03/C05/C06/C10, bounded there)'
PROPS['C02'].update({
    'units': ['contexts.getitem', 'lattices.__call__', 'lattices.__getitem__.int', 'lattices.__getitem__.empty', 'lattices.__getitem__.labels',
              'matrices.doubleprime', 'matrices.prime'] + GALOIS,
    'level': 'proof',
    'proved_part': 'Context.__getitem__ = (Cl(A),Up(A)) / (Dn(B),Cl\'(B)) in raw and label form; closure laws (extensive, monotone, idempotent, least) '
                   'as z3 lemmas; Lattice.__call__/__getitem__ return the member object with that extent, lattice[i] the i-th member, lattice[()] the top, ' + REL,
    'bounded_part': 'replay / counterexample finder; LatInv establishment; bitsets contracts',
    'technique': 'contract-based deductive verification of the lookups + z3-proved closure lemmas, VCs from the real AST',
    'level_text': 'Every function on the lookup path is under contract and every obligation is discharged for all contexts and queries; '
                  'lattice lookups are proved relative to the lattice invariant.',
    'level_note': 'Assumes CtxInv, LatInv (bounded elsewhere), the bitsets contracts frommembers/members, and the BITS axioms.',
})
PROPS['C07'].update({
    'units': ['members.join', 'members.meet', 'lattices.join', 'lattices.meet', 'matrices.double', 'lemma.meet_closed.O'] + GALOIS,
    'level': 'proof',
    'proved_part': 'binary and n-ary join/meet return the member whose extent is the closure of the union / the intersection of the extents; '
                   'empty join = infimum, empty meet = supremum; intersection of extents is an extent; closure is least (lub/glb) -- ' + REL,
    'bounded_part': 'algebraic laws and operator aliases on enumerated lattices; bitsets reduce_or/reduce_and; replay',
    'technique': 'contract-based deductive verification of binary and n-ary join/meet relative to the lattice invariant, z3 lemma instances',
    'level_text': 'All four functions are proved for all lattices satisfying LatInv and all (finite) collections of concepts.',
    'level_note': 'Assumes LatInv.1/2/4 and the fold contracts of bitsets reduce_or/reduce_and.',
})
PROPS['C09']['units'] = ['common.iterunion', 'members.upset', 'members.downset', 'lattices.upset_union', 'lattices.downset_union']
PROPS['C09']['proved_part'] += '; the four wrappers pass the right seeds, rank key and neighbour getter (and the reduced collection from tools.maximal)'
PROPS['C09']['bounded_part'] = 'tools.maximal (itertools branch), the precondition of iterunion from LatInv.2/3/5 + L-SLEX, replay'
PROPS['C18'].update({
    'units': ['contexts.minimize', 'contexts._minimal', 'members.minimal', 'members.attributes', 'members.infimum_minimal', 'matrices.prime'],
    'level': 'proof',
    'proved_part': '_minimize is exactly the filter of intent.powerset() by Dn(S) = extent (just the intent for an empty extent); _minimal its first '
                   'element; Concept.attributes/minimal are the label forms; Infimum.minimal the full intent',
    'bounded_part': 'powerset() order and exhaustiveness (bitsets contract), replay',
    'technique': 'contract-based deductive verification of the generator (yields clause) and its wrappers against the powerset library contract',
    'level_text': 'All functions of the property are under contract with all obligations discharged, relative to the stated library contract.',
    'level_note': 'powerset() (every subset once, shortlex order) and members() are assumed bitsets contracts, run-time checked on the bounded side.',
})
PROPS['C20'].update({
    'units': ['visualize.lattice', 'lattices.graphviz'],
    'level': 'proof',
    'level_text': 'The Graphviz call trace is proved for all lattices satisfying LatInv: node per concept, label edges exactly when labelled, one edge per lower cover.',
    'level_note': 'graphviz.Digraph rendering one statement per call is an assumed external contract (parsed back on the bounded side); LatInv assumed.',
})

UNIQUE = ['tools.Unique.' + n for n in ('add', 'discard', 'replace', 'move', '_fromargs', 'copy', '__contains__', '__len__', '__iter__')] + \
    ['stdlib.MutableSet.remove', 'stdlib.MutableSet.__ior__']
PROPS['C13'].update({
    'units': UNIQUE + ['lemma.fold_add'] + ['definitions.' + n for n in (
        '__setitem__', '__setitem__.int', 'add_object', 'add_property', 'set_object', 'set_property', 'remove_object', 'remove_property',
        'move_object', 'move_property', 'rename_object', 'rename_property')],
    'level': 'other',
    'proved_part': 'per-operation contracts against the ordered-table view (two duplicate-free name sequences, a set of true cells) for cell assignment, '
                   'add/set/remove/rename/move of objects and properties, and for the tools.Unique methods and stdlib mixins they use: view after = model(view before), '
                   'well-formedness and no-residue invariant preserved, rejected calls raise and leave the view unchanged; all histories follow by induction on the history',
    'bounded_part': 'remove_empty_*, in-place union/intersection, Definition.__init__/__eq__ ("equals a fresh definition"), lemma fold_dedup (assumed); exhaustive per-operation model check over a small universe, random histories',
    'technique': 'contract-based deductive verification: data structure against an abstract view (SEQ/SET theories), one contract per mutator, VCs from the real AST; bounded model-based stand-in for the rest',
    'level_text': '12 mutator entry points and 11 container methods proved for all states and arguments; the remaining operations are bounded.',
    'level_note': 'Assumes the list/set builtin contracts (algebraic SEQ theory validated against CPython), A-HEAP, and lemma fold_dedup (validated by enumeration).',
})

PROPS['C13']['units'] += ['definitions.' + n for n in ('conflicting_pairs', 'ensure_compatible', 'union_update', 'intersection_update', '__ior__', '__iand__')]
PROPS['C13']['proved_part'] += '; in-place union/intersection (|=, &=) with conflict detection on shared cells (raise before any store)'
PROPS['C13']['bounded_part'] = ('remove_empty_*, Definition.__init__/__eq__ ("equals a fresh definition"), aliased d |= d; assumed: lemma fold_dedup, '
                                'stdlib Set.__and__/__iand__ on Unique; exhaustive per-operation model check over a small universe, random histories')
PROPS['C13']['level_text'] = '18 mutator entry points and 11 container methods proved for all states and arguments; the remaining operations are bounded.'
PROPS['C14'].update({
    'units': ['definitions.take', 'contexts.__eq__', 'contexts.__ne__', 'tools.Unique.copy', 'tools.Unique._fromargs', 'lemma.fold_add'] + ['definitions.' + n for n in (
        '_fromargs', 'copy', 'inverted', 'transposed', 'union', 'intersection', 'union_update', 'intersection_update', 'conflicting_pairs', 'ensure_compatible')],
    'level': 'other',
    'proved_part': 'copy, inverted, transposed, take, union, intersection (and |, &): the result is a new definition whose three containers are allocated by the call and shared '
                   'with no source (freshness obligations), with the mathematically expected table (complement, swap of axes, cell-wise or/and with conflict detection unless ignored), '
                   'sources unchanged; Context.__eq__/__ne__: equal exactly when the triples are equal',
    'bounded_part': 'involution laws, Context<->Definition round trip, shape/fill_ratio/table string/crc32 agreement, single follow-up edits',
    'technique': 'contract-based deductive verification with freshness (allocation) obligations and view postconditions per derivation; bounded model-based stand-in for the rest',
    'level_text': 'Six derivations and Context equality proved for all definitions; the agreement clauses (shape, fill_ratio, crc32, round trip) are bounded.',
    'level_note': 'A-HEAP (identity = allocation), SEQ/SET theories, pure set comprehension closed form generated from the real AST, assumed stdlib Set mixins on Unique.',
})

PROPS['C03']['units'] = ['lindig.neighbors', 'lindig.lattice', 'matrices.doubleprime'] + GALOIS
PROPS['C03']['proved_part'] = ('the Lindig step (neighbors): exactly the upper covers; the worklist lindig.lattice: yields exactly the extents of the context, each once '
                               '(invariant J1-J8 over mapping/heap/processed sets, Lean lemmas L-LINDIG, cover_unique_gen, L-WORKLIST)')
PROPS['C03']['bounded_part'] = 'the constructor Lattice.__init__ turning the yielded tuples into Concept objects; len(lattice); replay'
PROPS['C03']['level_text'] = 'neighbors and the worklist generator proved for all contexts; the constructor is bounded.'
PROPS['C03']['level_note'] = 'Assumes bitsets contracts (atomic, shortlex keys, frommembers), heapq contract, SMT<->Lean transcription; termination not proved.'
PROPS['C05']['units'] = ['lindig.neighbors', 'lindig.lattice', 'contexts.neighbors', 'contexts._neighbors', 'matrices.doubleprime'] + GALOIS
PROPS['C05']['proved_part'] += ('; the worklist records for every extent exactly its upper covers in the upper list and exactly its lower covers in the lower list '
                                '(converse by construction), the tuple being shared between mapping and heap')
PROPS['C05']['bounded_part'] = 'Lattice.__init__ mapping the recorded extents to member objects (identity, no repeats); replay'
PROPS['C06'].update({
    'units': ['lindig.lattice'],
    'level': 'other',
    'proved_part': 'the generator yields extents in strictly increasing shortlex rank (heap invariant J5/J8), relative to the bitsets shortlex key contract',
    'bounded_part': 'index/dindex assignment, sorting of neighbour tuples, infimum/supremum/atoms accessors (Lattice.__init__/_init)',
    'technique': 'contract-based deductive verification of the generator order; bounded stand-in for the constructor-level ranks and sorting',
    'level_text': 'Generator order proved; constructor-level clauses bounded.',
    'level_note': 'shortlex()/longlex() keys realising the positional orders are an assumed bitsets contract (bounded side uses labels whose order differs from position).',
})

LATINV = ['lindig.neighbors', 'lindig.lattice', 'lattices.__init__', 'lattices._init', 'lattices._make_mapping', 'lattices._shortlex',
          'lattices._longlex', 'members.Pair.__init__', 'contexts._lattice', 'contexts.lattice', 'tools.lazyproperty.__get__',
          'matrices.doubleprime', 'lemma.bits_subset'] + GALOIS
CHAIN = ('Context.lattice -> Lattice.__init__ -> Context._lattice -> lindig.lattice -> lindig.neighbors -> doubleprime, then _init/_annotate: '
         'every function on the chain is under contract')
PROPS['C03'].update({
    'units': LATINV + ['lattices.__len__', 'lattices.__iter__', 'members.Pair.__iter__'],
    'level': 'proof',
    'proved_part': 'the worklist yields exactly the extents of the context, each once (J1-J8, Lean lemmas L-LINDIG, cover_unique_gen, L-WORKLIST); the constructor '
                   'turns the i-th yielded tuple into the i-th member; iter(lattice)/len(lattice) are the member list; ' + CHAIN,
    'bounded_part': 'replay / counterexample finder; bitsets and heapq contracts',
    'technique': 'contract-based deductive verification of the whole construction chain (loop invariants over ghost sets, heap abstraction), Lean-proved lattice lemmas as instances',
    'level_text': 'All obligations of the construction chain are discharged for all contexts (unbounded); the bottom/top/all-crosses clauses follow from Cl(0) being an extent and LatInv.2.',
    'level_note': 'Assumes bitsets contracts (atomic, shortlex keys realise a strict rank compatible with inclusion, frommembers), heapq, sorted, SMT<->Lean transcription; termination not proved.',
})
PROPS['C05'].update({
    'units': LATINV + ['contexts.neighbors', 'contexts._neighbors', 'matrices.double'],
    'level': 'proof',
    'proved_part': 'lindig.neighbors = exactly the upper covers; the worklist records upper and lower covers per extent (converse by construction, tuple shared by mapping and heap); '
                   'the constructor maps them to member objects, each cover once; Context.neighbors = covers of the generated concept; ' + CHAIN,
    'bounded_part': 'replay / counterexample finder; bitsets and heapq contracts',
    'technique': 'contract-based deductive verification of the Lindig step, the worklist and the constructor; Lean lemmas L-LINDIG / cover_unique_gen as instances',
    'level_text': 'Stored neighbour links and Context.neighbors are proved to be exactly the covering relation for all contexts.',
    'level_note': 'Assumes bitsets contracts (atomic, keys), heapq, sorted (permutation), SMT<->Lean transcription.',
})
PROPS['C06'].update({
    'units': LATINV + ['lattices.infimum', 'lattices.supremum', 'lattices.atoms', 'lattices.__iter__', 'lattices._fromlist.raw', 'lattices._fromlist.ordered'],
    'level': 'proof',
    'proved_part': 'generator order strictly increasing in the shortlex rank; index = position; dindex = position in the longlex-sorted order; upper_neighbors sorted by the shortlex key, '
                   'lower_neighbors by the longlex key; infimum/supremum/atoms = first member / last member / upper neighbours of the first; '
                   'Lattice._fromlist: canonical list trusted as given, with raw=True re-sorted (members and every neighbour list) from any permutation; ' + CHAIN,
    'bounded_part': 'that the bitsets keys are the positional shortlex/longlex orders (labels chosen so that label order differs from position); replay',
    'technique': 'contract-based deductive verification of order and ranks through the construction chain, relative to the key contract of bitsets',
    'level_text': 'All order clauses are proved relative to the contract that shortlex()/longlex() keys realise the positional orders.',
    'level_note': 'The key contract of bitsets (ties by position, not by label) is assumed and checked on the bounded side only.',
})
PROPS['C10'].update({
    'units': ['lattices._annotate', 'lattices._init', 'lemma.bits_subset', 'contexts.intension', 'contexts.extension'] + GALOIS,
    'level': 'proof',
    'proved_part': '_annotate puts every object on exactly the member with extent Cl({o}) and every property on the member with extent Dn({p}), in context order, as tuples '
                   '(class default () elsewhere), for every iteration order of the set `touched`; _init sets concept.atoms to the lattice atoms below or equal to it',
    'bounded_part': 'the consequences "extent = union of object labels in the downset" etc. on enumerated lattices; replay',
    'technique': 'contract-based deductive verification of the labelling loops (ghost membership + last-position abstraction, order-independence over the set iteration)',
    'level_text': 'The reduced labelling and the atoms tuples are proved for all contexts relative to LatInv.1/4 and the contracts of intension/extension.',
    'level_note': 'Label containers abstracted by membership and last appended position (a strictly increasing sequence is determined by its set).',
})

PROPS['C17'].update({
    'units': ['lattices._annotate', 'common.iterunion', 'definitions.copy', 'definitions.inverted', 'definitions.transposed', 'tools.Unique.copy',
              'definitions.set_object', 'definitions.set_property', 'definitions.conflicting_pairs'],
    'order_scan': True,
    'level': 'other',
    'proved_part': 'order independence per site: a syntactic scan of the whole package finds every place where a set-typed value is iterated, converted to an ordered form, '
                   'rendered, merged into an ordered container or escapes; each site is discharged by a proved unit (e.g. _annotate for every iteration order, iterunion depends on the '
                   'seed set only) or a syntactic argument; functional postconditions proved with set order left arbitrary (A-SET) cannot depend on the hash seed',
    'bounded_part': 'the cross-process quantifier itself: the observation corpus under several PYTHONHASHSEED values and allocation patterns',
    'technique': 'contract-based: per-site order-independence obligations (syntactic scan + proved units under arbitrary set order); bounded multi-seed subprocess comparison',
    'level_text': 'Every set-order site of the package is on a discharged list; a new site is an ungenerated obligation. Cross-process comparison is bounded.',
    'level_note': 'The scan is an over-approximation by syntax (set displays/comprehensions/set()/frozenset()/set operators/_seen/_pairs and local names assigned from them); '
                  'parameters whose run-time value is a set are not tracked. id()-based orders other than set iteration are not modelled.',
})

PROPS['C16'].update({
    'units': ['junctors.RelationMeta.__call__', 'lemma.relation_patterns', 'junctors.Relations.__init__', 'junctors.Relations.tostring', 'contexts.relations'],
    'level': 'proof',
    'proved_part': 'classification by complete enumeration of the finite pattern domain against the real class table (kind, rank, orientation; Replication becomes a '
                   'swapped Implication); two contingent columns can only give the 7 oracle patterns; Relations.__init__: unary entries per property first (when requested), '
                   'one entry per 2-combination of contingent properties pairing their columns, list initialised once and stably sorted by rank; tostring is defined for an empty list',
    'bounded_part': 'Context.relations passing the property columns; the printed text lists exactly the non-orthogonal entries; replay',
    'technique': 'contract-based deductive verification: complete finite-domain enumeration of RelationMeta.__call__ on the real table + dataflow-shape contract of Relations.__init__',
    'level_text': 'The pattern domain is finite and enumerated completely (a loop-free harness over the full domain); the construction glue is proved from library contracts.',
    'level_note': 'Assumes itertools.combinations/chain, zip, list.sort (stable) contracts; the docstring parser is not verified, its resulting table is checked against the oracle.',
})

for _p in ('C01', 'C03', 'C05'):
    PROPS[_p]['units'] = PROPS[_p]['units'] + ['matrices._pair_with', 'matrices.Relation.__new__']
PROPS['C01']['units'] += ['contexts.__init__']
PROPS['C01']['proved_part'] += ('; Vectors._pair_with binds the three closures (on the instance and on its bitset class) to the PairEnv of (self, other); Relation.__new__ creates two '
                                'NEW bitset classes per relation and pairs both directions; Context.__init__ builds the Relation from (properties, objects, bools)')
PROPS['C01']['bounded_part'] = 'bitsets library contracts (bitset() returns a new class, frombools/bools, frommembers/members, zip transposition); replay'

PROPS['C19'].update({
    'units': ['contexts.__init__', 'contexts.fromdict'],
    'level': 'proof',
    'proved_part': 'Context.__init__ and Context.fromdict return normally iff the input is well-formed (non-empty, duplicate-free, disjoint name lists; one row per object with one cell '
                   'per property; for fromdict additionally all three keys present, string names, row count = object count, duplicate-free in-range column indexes, a lattice present when '
                   'required and never empty) and raise ValueError -- and only ValueError -- otherwise, before any context exists; accepted rows satisfy bools[r][i] <-> i in context[r]; '
                   'the stored lattice is attached iff present and not ignored, with the raw flag passed on',
    'bounded_part': 'faithfulness of .objects/.properties/.bools through the bitsets frombools/bools contracts; single and double corruptions as replay',
    'technique': 'contract-based deductive verification of the iff-postconditions of the constructor and of fromdict (nested function executed in place, lazy rows forced per element)',
    'level_text': 'Both entry points are proved for all well-typed inputs: acceptance iff well-formedness, ValueError otherwise.',
    'level_note': 'Input abstracted by lengths, duplicate-freeness, disjointness, per-row predicates; builtins (all, isinstance, set, issubset, range, map) assumed; a literal None lattice value is not modelled.',
})

PROPS['C11'].update({
    'units': ['contexts.todict.true', 'contexts.todict.false', 'contexts.todict.none', 'lattices._tolist', 'lattices._fromlist.raw', 'lattices._fromlist.ordered',
              'contexts.fromdict', 'contexts.fromjson', 'contexts.tojson', 'contexts.__getstate__', 'contexts.__setstate__', 'lattices.__getstate__',
              'lattices.__setstate__', 'matrices.Relation.__reduce__', 'matrices.Vectors.__reduce__', 'matrices.Relation.__new__', 'matrices.Relation.__new__.unpickle', 'lattices._init'],
    'level': 'other',
    'proved_part': 'todict/_tolist: the documented index-based encoding (keys, per concept extent/intent index tuples and neighbour indexes in stored order; lattice included iff requested/already computed); '
                   'fromdict: acceptance and faithful cells, stored lattice attached with the raw flag; _fromlist: from any permutation of the canonical list (raw) or the canonical list (ordered) '
                   'the rebuilt members have the stored extents/intents, canonical index, covers as neighbour tuples in shortlex/longlex order, and _init is called on the canonical arrangement '
                   '(LatInv is categorical, so every public query agrees with the recomputed lattice); fromjson/tojson pass every flag; __getstate__/__setstate__/__reduce__ are inverse pairs with the constructors',
    'bounded_part': 'the codecs (json, repr + ast.literal_eval, python-literal line structure), the pickle protocol itself incl. another process, recursion depth (known finding), '
                    'the literal-file path; the sum-of-atoms arithmetic contract is assumed; lemma L-SORTED-CANONICAL is proved in Lean (lemmas/Seq.lean)',
    'technique': 'contract-based deductive verification of the encode/decode pair (todict/_tolist vs fromdict/_fromlist) and of the pickling hooks as inverse pairs; bounded stand-in for codecs and the pickle protocol',
    'level_text': 'Encode/decode functions proved relative to the trusted-stored-list precondition; external codecs and the pickle protocol are bounded; recursion depth is a known finding.',
    'level_note': 'Not decidable by contracts here: the C pickler walking the object graph, the id()-keyed class registry in a fresh process, recursion depth.',
})

PROPS['C12'].update({
    'units': ['formats.fimi.iter_fimi_rows', 'formats.fimi.dump_file', 'formats.FormatMeta.__getitem__', 'formats.FormatMeta.infer_format',
              'formats.Format.load', 'formats.Format.loads', 'formats.Format.dump', 'formats.Format.dumps',
              'contexts.fromstring', 'contexts.fromfile', 'contexts.tostring', 'contexts.tofile'],
    'level': 'other',
    'proved_part': 'index-level and plumbing functions only: FIMI rows = ascending indexes of the truthy cells, one line per row; format lookup and suffix inference on the lower-cased name/suffix; '
                   'load/dump open the file with the format\'s encoding and newline and pass every option on; fromstring/fromfile/tostring/tofile call the right codec with the own triple '
                   '(the serialized dict form only for python-literal)',
    'bounded_part': 'the text layer itself: str.partition/strip/split, %-padding, print, io.StringIO newline translation, the C csv module, codecs -- round trips and independent reference '
                    'readers/writers over the stated table sizes, label alphabets, encodings and dialects',
    'technique': 'bounded stand-in for the text layer (independent reference readers/writers); contract-based deductive verification of the index helpers and the plumbing',
    'level_text': 'The text layer is out of reach of the deductive engine (DESIGN section 8); only helpers and plumbing are proved, everything textual is bounded.',
    'level_note': 'str/csv/codec builtins are not axiomatised; no unbounded claim is made for the round-trip clauses.',
})

PROPS['C15'].update({
    'units': ['lemma.perm_col', 'lemma.dup_col', 'lemma.full_col', 'matrices.prime', 'matrices.double', 'matrices.doubleprime', 'matrices._pair_with',
              'matrices.Relation.__new__', 'lindig.neighbors', 'lindig.lattice', 'fcbo.fast_generate_from', 'fcbo.fcbo_dual', 'members.join', 'members.meet',
              'junctors.RelationMeta.__call__', 'definitions.transposed'] + GALOIS,
    'level': 'other',
    'proved_part': 'a lemma over the contracts: the code computes the spec functions (units of C01/C03/C05/C07/C16, one closure text for both directions = duality), and the spec functions '
                   'are invariant: column permutation leaves the closure on object sets unchanged and relabels intents (L-PERM; rows by duality), a duplicated or universal column leaves '
                   'the closure unchanged (L-DUP-COL, L-FULL-COL; duplicated row by duality), Definition.transposed swaps the axes',
    'bounded_part': 'the label-level relational statement itself (concept sets, covers, joins/meets, relations of the original vs. the permuted / transposed / extended context)',
    'technique': 'contract-based: spec-level invariance lemmas proved by z3 over two related tables + the code-equals-spec contracts of the other properties; bounded relational run-time check',
    'level_text': 'Invariance of the spec functions proved; the statement about two real contexts is a corollary of the per-function contracts and is additionally checked on the bounded scope.',
    'level_note': 'The corollary step (same spec functions => same label-level lattice) is not a machine-checked obligation; rows handled by duality of the symmetric theory.',
})

PROPS['C13']['units'] += ['definitions.' + n for n in ('remove_empty_objects', 'remove_empty_properties', '__init__', '__eq__', 'objects', 'properties', 'bools')] + \
    ['tools.Unique.__init__', 'tools.Unique.issuperset', 'lemma.fresh_equal']
PROPS['C13'].update({
    'level': 'proof',
    'proved_part': 'every editing operation against the ordered-table view (two duplicate-free name sequences, a set of true cells): cell assignment, add/set/remove/rename/move of objects and '
                   'properties, remove_empty_*, in-place union/intersection (|=, &=) with conflict detection; the constructor establishes well-formedness and the no-residue invariant, '
                   'every operation preserves them, computes the model\'s view and return value, and a rejected call raises before any store; objects/properties/bools render the view '
                   '(one row per object, one cell per property); equality with a fresh definition built from the own triple follows from the invariant. All histories follow by induction on the history.',
    'bounded_part': 'aliased calls (d |= d), comparison with a plain triple, replay; the stdlib Set mixins __and__/__iand__ on Unique (assumed contracts); the list lemmas fold_dedup / erase_fold_keep / fold_len are proved in Lean (lemmas/Seq.lean)',
    'level_text': 'All editing operations, the constructor and the container class are under contract with every obligation discharged, for all states and arguments.',
    'level_note': 'Assumes the list/set builtin contracts (algebraic SEQ theory validated against CPython), A-HEAP, three list lemmas about the spec functions (proved in lemmas/Seq.lean, used through a hand transcription), and other is not self for the binary operations.',
})
PROPS['C14']['units'] += ['definitions.__init__', 'definitions.__eq__', 'definitions.objects', 'definitions.properties', 'definitions.bools', 'lemma.fresh_equal']

_STD = ['stdlib.Set.__sub__.unique', 'stdlib.Set.__sub__.sequence', 'stdlib.Set.__and__.unique', 'stdlib.MutableSet.__iand__.unique',
        'stdlib.MutableSet.__iand__.sequence']
PROPS['C13']['units'] += _STD
PROPS['C14']['units'] += _STD
PROPS['C13']['bounded_part'] = 'aliased calls (d |= d), comparison with a plain triple, replay'
PROPS['C13']['level_note'] = ('Assumes the list/set builtin contracts (algebraic SEQ theory, validated against CPython and restated with proofs in lemmas/Seq.lean), A-HEAP, '
                              'the hand transcription SMT <-> Lean of the list lemmas, and other is not self for the binary operations. The stdlib Set/MutableSet mixins '
                              'used by tools.Unique (remove, __ior__, __iand__, __and__, __sub__) are verified from the interpreter\'s own source.')

CBO_LEMMAS = ['lemma.cbo.%s.%s' % (a, b) for a in ('basic', 'leaf_root', 'child_exists', 'child_inside') for b in ('P', 'O')]
PROPS['C04'].update({
    'units': ['fcbo.fast_generate_from', 'fcbo.fcbo_dual', 'fcbo.fast_generate_from.complete', 'fcbo.fcbo_dual.complete',
              'algorithms.iterconcepts', 'algorithms.get_concepts', 'common.frompairs',
              'lemma.line_closed', 'lemma.meet_closed.O', 'lemma.meet_closed.P', 'lemma.bits_subset'] + CBO_LEMMAS + GALOIS,
    'level': 'proof',
    'proved_part': 'both FCbO generators: soundness (every stack entry and every yielded pair is a formal concept; index safety) and, new, completeness and '
                   'exactly-once: loop invariants over the stack as a multiset of (key, index, failed-set list) entries with the failed-set lists as heap '
                   'objects (copy = allocation, sharing between siblings, later mutation) -- every closed key is yielded or lies in the Close-by-One subtree of '
                   'exactly one stack entry, yielded keys lie in no subtree, inherited failed sets never prune a canonical child; at exit every formal concept '
                   'is the pair yielded for its key, each key yielded once (lemmas lemma.cbo.* proved by z3 from the BITS axioms and the Galois lemmas); '
                   'wrappers iterconcepts/get_concepts/frompairs return the same pairs in the same order, get_concepts a list allocated per call; '
                   'agreement with context.lattice: both are characterised as "exactly the formal concepts, each once" (C03 units for the lattice)',
    'bounded_part': 'the same statement on enumerated contexts (replay / counterexample finder); bitsets contracts',
    'technique': 'contract-based deductive verification of both FCbO generators (soundness, completeness and exactly-once by loop invariants over ghost stack/heap state, '
                 'z3-proved Close-by-One lemmas as instances) and of the wrappers; bounded run-time contracts as replay',
    'level_text': 'All obligations are discharged for all contexts (unbounded): each generator yields exactly the formal concepts, each exactly once; the wrappers preserve the sequence.',
    'level_note': 'Assumes bitsets contracts (atoms(), fromint, supremum/infimum), the stack-as-multiset abstraction (pop returns some entry: emission order is outside C04), '
                  'list copy/element assignment as heap operations; termination not proved. The agreement with context.lattice is the corollary of this and the C03 units, not a separate obligation.',
})
PROPS['C09'].update({
    'units': ['common.iterunion', 'members.upset', 'members.downset', 'lattices.upset_union', 'lattices.downset_union', 'tools.maximal',
              'lemma.traversal.up', 'lemma.traversal.down'],
    'level': 'proof',
    'proved_part': 'iterunion yields exactly the items reachable from the seeds, in strictly increasing key order, each once (heap/ghost-set invariant I1-I5, '
                   'L-REACH in Lean) for any key/next satisfying its requirements; the four wrappers pass the right seeds, rank key and neighbour getter (and the '
                   'reduced collection from tools.maximal); tools.maximal (the real generator expression over permutations/groupby/starmap) returns exactly the '
                   'elements with nothing of the collection strictly before them, each once; corollary lemmas lemma.traversal.up/down: under LatInv the requirements '
                   'of iterunion hold and reach = the filter (ideal) of the seeds = that of the whole collection (L-UPSET, L-DOWNSET, L-MINIMAL proved in Lean)',
    'bounded_part': 'the same statement on enumerated lattices (all concepts, pairs and sampled multisets incl. repeats and one-shot iterables); replay',
    'technique': 'contract-based deductive verification of the worklist generator, of tools.maximal and of the wrappers; corollary lemmas (z3) over these contracts with '
                 'Lean-proved order lemmas as instances; bounded run-time contracts as replay',
    'level_text': 'All obligations are discharged for all lattices satisfying LatInv: the four traversals yield exactly the filter/ideal (of the union), once each, in index/dindex order.',
    'level_note': 'Relative to LatInv (index/dindex strictly monotone bijections: LatInv.2/3 + L-SLEX/L-LLEX; neighbours = covers: LatInv.5, established by the C03/C05/C06 chain); '
                  'assumed library contracts: heapq, builtin set, itertools.permutations/groupby/starmap, any; SMT<->Lean transcription; termination not proved.',
})
_AGREE = ['contexts.definition', 'definitions.__iter__', 'contexts.shape', 'definitions.shape', '_common.Shape._from_pair', '_common.Shape.size',
          'contexts.tostring', 'definitions.tostring', 'contexts.crc32', 'definitions.crc32', 'contexts.fill_ratio', 'definitions.fill_ratio',
          'lemma.involution', 'contexts.__init__']
PROPS['C14']['units'] += _AGREE
PROPS['C14'].update({
    'level': 'proof',
    'proved_part': PROPS['C14']['proved_part'] + '; agreement clauses as corollaries over call-trace contracts: Context.definition() = a new Definition(objects, properties, bools); '
                   'Definition.__iter__ yields the triple (so Context(*d) receives it); shape = Shape(len(objects), len(properties)) on both sides; tostring = '
                   'Format[frmat].dumps(objects, properties, bools, **kwargs) on both sides; crc32 = crc32_hex(tostring().encode(encoding)) on both sides; fill_ratio = '
                   'Fraction(number of true cells, shape.size) on both sides; transposed and inverted are involutions (lemma.involution over their posts); '
                   'round trip by lemma.fresh_equal and the constructor contracts',
    'bounded_part': 'the same statements on all small definitions incl. single follow-up edits on source or result (replay / counterexample finder)',
    'technique': 'contract-based deductive verification with freshness (allocation) obligations and view postconditions per derivation; call-trace contracts for the '
                 'agreement clauses and z3 lemmas over the contracts; bounded model-based run-time contracts as replay',
    'level_text': 'All clauses are proved for all definitions/contexts relative to the listed library contracts: derivations (table, freshness), equality, round trip, involutions, and the '
                  'shape / fill_ratio / table string / crc32 agreement (both sides call the same functions on an equal triple).',
    'level_note': 'A-HEAP (identity = allocation); SEQ/SET theories; assumed: bitsets frombools/bools/count(), len(set), Fraction, str.encode, zlib.crc32 and Format.dumps are '
                  'functions of their arguments; the counting lemma (row sizes add up to the number of true cells) is Finset.card_sigma (lemmas/Upset.lean: card_true_cells); '
                  '"editing either side never changes the other" follows from the freshness obligations and the frame clauses of the C13 mutator units, not a separate obligation.',
})
PROPS['C15']['units'] += ['lemma.transpose', 'contexts.relations', 'junctors.Relations.__init__', 'fcbo.fast_generate_from.complete', 'fcbo.fcbo_dual.complete',
                          'lemma.line_closed', 'lemma.meet_closed.O', 'lemma.meet_closed.P', 'lemma.bits_subset'] + CBO_LEMMAS
PROPS['C15'].update({
    'level': 'proof',
    'proved_part': 'the code computes the spec functions (units of C01/C03/C05/C07/C16; one closure text for both directions = duality), and the spec functions are invariant: '
                   'column permutation leaves the closure on object sets unchanged and relabels intents (L-PERM), a duplicated or universal column leaves the closure unchanged '
                   '(L-DUP-COL, L-FULL-COL), each with the machine-checked corollaries: same family of extents (hence the same number of concepts), same joins, meets and cover '
                   'condition; transposition (L-TRANSPOSE): derivation operators exchanged, (A,B) concept iff (B,A) concept of the transpose, order reversed, intent of a join = meet of '
                   'intents and intent of a meet = join of intents; relations: the columns move with their labels (link) and Relations pairs the columns (unit); Definition.transposed swaps the axes',
    'bounded_part': 'the label-level relational statement on enumerated pairs of real contexts (original vs. permuted / transposed / extended) as replay / counterexample finder',
    'technique': 'contract-based: spec-level invariance and duality lemmas with their corollaries proved by z3 over two related tables + the code-equals-spec contracts of the other '
                 'properties; bounded relational run-time contracts as replay',
    'level_text': 'Every statement of the property is an obligation at the level of the spec functions of two related tables, all discharged; the real functions are proved to compute those spec functions.',
    'level_note': 'Relational property: the composition "code = spec for each table" + "spec statements for the two tables" is the modular argument, not a single obligation; row permutation / row duplication '
                  'are the column lemmas applied to the transposed tables (L-TRANSPOSE); assumes the bitsets contracts of the underlying units.',
})
# the bitsets package itself under contract (contracts/bitsets_lib.py): library contracts that used to be assumed
BITSETS_CORE = ['bitsets.Meta.__init__', 'bitsets.MemberBits.frommembers', 'bitsets.MemberBits.frombools', 'bitsets.MemberBits.bools',
                'bitsets.MemberBits.members', 'bitsets.Series.frombools', 'bitsets.Series.bools', 'bitsets.integers.indexes']
BITSETS_ATOMS = ['bitsets.Meta.__init__', 'bitsets.MemberBits.atoms', 'bitsets.MemberBits.inatoms', 'bitsets.Meta.atomic', 'bitsets.Meta.inatomic']
BITSETS_KEYS = ['bitsets.MemberBits.shortlex', 'bitsets.MemberBits.longlex', 'bitsets.integers.reinverted', 'lemma.bitsets.key_injective', 'lemma.bitsets.key_order']
BITSETS_REDUCE = ['bitsets.Meta.reduce_and', 'bitsets.Meta.reduce_or']
_BS_NOTE = (' The bitsets functions used here are themselves under contract (units bitsets.*, verified from the installed package source); what remains assumed of bitsets: '
            "bin(x).count('1') = member count, indexes_optimized = indexes (both via bin()), the class registry.")
for _p, _l in (('C01', BITSETS_CORE), ('C19', BITSETS_CORE), ('C02', BITSETS_CORE), ('C03', BITSETS_ATOMS + BITSETS_KEYS), ('C05', BITSETS_ATOMS + BITSETS_KEYS),
               ('C06', BITSETS_KEYS), ('C07', BITSETS_REDUCE), ('C10', BITSETS_CORE), ('C11', ['bitsets.integers.indexes', 'bitsets.Series.index_sets', 'bitsets.MemberBits.bools']),
               ('C04', BITSETS_ATOMS), ('C13', []), ('C14', ['bitsets.MemberBits.frombools', 'bitsets.MemberBits.bools', 'bitsets.Series.frombools', 'bitsets.Series.bools'])):
    PROPS[_p]['units'] = PROPS[_p]['units'] + [u for u in _l if u not in PROPS[_p]['units']]
    if _l:
        PROPS[_p]['level_note'] += _BS_NOTE
PROPS['C18']['units'] += ['bitsets.combos.shortlex', 'bitsets.MemberBits.powerset', 'bitsets.MemberBits.atoms', 'lemma.powerset.tree', 'lemma.powerset.order', 'bitsets.Meta.__init__',
                          'bitsets.MemberBits.members', 'bitsets.integers.indexes']
PROPS['C18']['proved_part'] += ('; intent.powerset() itself: MemberBits.powerset passes (infimum, the ascending member atoms) to combos.shortlex, which yields every subset exactly once, '
                                'the empty set first, in STRICTLY increasing short-lexicographic order (size, then the set owning the lowest differing position first: obligation '
                                'yield/shortlex-order against the set yielded before; deque as FIFO array, ownership invariant like Close-by-One, sorted-queue invariants O1-O3, '
                                'lemma.powerset.tree, lemma.powerset.order incl. that the order is a strict total order, so the whole enumeration order is determined)')
PROPS['C18']['bounded_part'] = 'replay (the order of attributes(), i.e. of the filtered powerset(), is compared at run time as well)'
PROPS['C18']['level_note'] = ('powerset() is no longer assumed: every subset once and the complete shortlex order (sizes and the tie order among equal-size subsets) are proved from the '
                              "bitsets source; bin()-based helpers (indexes_optimized, count) remain assumed bitsets contracts, run-time checked on the bounded side.")
PROPS['C06']['bounded_part'] = "bin(x).count('1') = the number of members (string level); replay with labels whose alphabetical order differs from their position"
PROPS['C06']['proved_part'] += ('; the sort keys themselves: shortlex()/longlex() = (+/- member count, reinverted bits), integers.reinverted verified from the bitsets source, and '
                                'lemma.bitsets.key_order: among sets of equal size the key orders by member POSITION (the set owning the lowest differing position first), key injective')
PROPS['C06']['level_note'] = ("The key contract of bitsets is now proved from the package source except the member count bin(x).count('1') (assumed = popcount, strictly monotone "
                              'under strict inclusion); B14 (order of naturals by the highest differing bit) is proved in Lean.' + _BS_NOTE)
PROPS['C13']['units'] += ['definitions.union_update.aliased', 'definitions.intersection_update.aliased']
PROPS['C13']['bounded_part'] = 'comparison with a plain triple, replay'
PROPS['C13']['level_note'] = PROPS['C13']['level_note'].replace(', and other is not self for the binary operations', '') + \
    ' The aliased calls d.union_update(d) / d.intersection_update(d) are proved separately (x op x = x; list lemma fold_self / keep_self in lemmas/Seq.lean).'
PROPS['C14']['units'] += ['definitions.union_update.aliased', 'definitions.intersection_update.aliased']
_LINES = ['formats.cxt.iter_cxt_lines', 'formats.cxt.Cxt.dumpf', 'formats.cxt.Cxt.loadf', 'formats.table.dump_file', 'formats.table.load_file',
          'formats.wiki_table.dump_file']
PROPS['C12']['units'] += _LINES
PROPS['C12']['proved_part'] += ('; line/structure level of the text formats (texts opaque): iter_cxt_lines yields exactly the documented line sequence, Cxt.dumpf prints each line once in order, '
                                'Cxt.loadf slices objects / properties / rows at y and x and decodes the rows; table dump_file (widths, header, one line per object with X/blank cells) and '
                                'load_file (comment stripping, header, partition per line, transposition); wiki-table dump_file (header, three lines per object, footer)')
_CSVPL = ['formats.csv.dumpf', 'formats.csv.loadf', 'lemma.csv.roundtrip', 'formats.python_literal.load_file',
          'formats.python_literal.dump_file.fresh', 'formats.python_literal.dump_file.serialized']
PROPS['C12']['units'] += _CSVPL
PROPS['C12']['proved_part'] += ('; csv at ROW level: Csv.dumpf hands tools.write_csv_file the header [object_header] + properties and one row [object] + symbols per object; Csv.loadf decodes '
                                'header and rows (symbol table given or detected on the first data row, False-table first; ValueError / KeyError cases); lemma.csv.roundtrip: loadf of the rows '
                                'dumpf wrote (cells through str()) returns the given (objects, properties, bools) for both symbol sets and for auto-detection; python-literal: load_file builds the '
                                'cell matrix bools[r][i] <-> i in context[r], dump_file builds the index form and writes the sections in order')
PROPS['C12']['bounded_part'] = ('the characters: str.partition/strip/split, %-padding, print, io.StringIO newline translation, the C csv module (quoting, dialects), repr / ast.literal_eval, codecs -- '
                                'round trips and independent reference readers/writers over the stated table sizes, label alphabets (incl. long lines), encodings and dialects')
PROPS['C11']['units'] += ['formats.python_literal.load_file', 'formats.python_literal.dump_file.fresh', 'formats.python_literal.dump_file.serialized']
PROPS['C11']['proved_part'] += '; the python-literal file form: load_file (cell matrix from the index form) and dump_file (index form, section order) at structure level'
# units for the remaining small functions (contracts/cover_core.py, contracts/cover_io.py)
_COVER = {
    'C12': ['concepts.load', 'concepts.load_cxt', 'concepts.load_csv', 'concepts.make_context', 'tools.write_csv_file', 'tools.csv_iterrows', 'tools.write_csv', 'tools.write_lines',
            'tools.snakify', 'formats.FormatMeta.__init__', 'formats.Format.loadf', 'formats.Format.dumpf', 'formats.fimi.read_concepts_dat', 'formats.fimi.write_concepts_dat',
            'definitions.fromfile', 'tools.max_len', 'tools.max_len.minimum', '_common.ConceptList.tofile.default', '_common.ConceptList.tofile.fimi', '_common.ConceptList.tofile.csv',
            'tools.sha256sum'],
    'C11': ['tools.dump_json', 'tools.load_json', 'tools._call_json', 'tools._get_fileobj', 'members.Pair._eq', 'lattices._eq', 'members.Pair.extent', 'members.Pair.intent'],
    'C14': ['tools.crc32_hex', 'contexts.copy', 'contexts.copy.include_lattice', 'tools.lazyproperty.__init__', '_common.Shape.rows', '_common.Shape.columns', '_common.Shape.__repr__',
            'contexts.__str__', 'contexts.__repr__', 'contexts.objects', 'contexts.properties', 'contexts.bools'],
    'C20': ['visualize.render_all'],
    'C19': ['contexts.objects', 'contexts.properties', 'contexts.bools'],
    'C01': ['contexts.objects', 'contexts.properties', 'contexts.bools', 'matrices.Relation.__repr__'],
    'C13': ['definitions.__getitem__', 'definitions.__getitem__.int0', 'definitions.__getitem__.int1', 'definitions.__getitem__.int2', 'definitions.__getitem__.int3',
            'definitions.__ne__', 'tools.Unique.rsub', 'lemma.rsub_model', 'tools.Unique.__repr__', 'definitions.__str__', 'definitions.__repr__'],
    'C09': ['lattices.upset_generalization', 'lemma.traversal.generalization'],
    'C16': ['junctors.Unary.__init__', 'junctors.Unary.__str__', 'junctors.Unary.__repr__', 'junctors.Binary.__init__', 'junctors.Binary.__str__', 'junctors.Binary.__repr__',
            'junctors.Relations.__str__', 'junctors.RelationMeta.__init__.Relation', 'junctors.RelationMeta.__init__.Unary', 'junctors.RelationMeta.__init__.Binary'],
    'C04': ['_common.Concept.objects', '_common.Concept.properties', '_common.Concept.n_objects', '_common.Concept.n_properties', '_common.Concept.__str__',
            '_common.Concept.extent_index_set', '_common.Concept.intent_index_set', '_common.Concept.index_sets'],
    'C08': ['members.__str__', 'members.__repr__'],
    'C03': ['lattices.__str__', 'lattices.__repr__', 'bitsets.Series.frommembers'],
}
for _p, _l in _COVER.items():
    PROPS[_p]['units'] = PROPS[_p]['units'] + [u for u in _l if u not in PROPS[_p]['units']]
PROPS['C16']['proved_part'] += ('; RelationMeta.__init__ executed on the real docstring tables (classes, patterns, kinds and ranks = the oracle, each registered once); Unary/Binary '
                                'constructors and printers; Context.relations builds a fresh Relations from the property columns')
PROPS['C09']['proved_part'] += '; upset_generalization: worklist invariant + corollary lemma (the concepts between a member of the collection and the union of the minimal members\' extents)'
PROPS['C13']['proved_part'] += '; d[o, p] / d[i] reads, __ne__, Unique.rsub against a recursive model (lemma.rsub_model)'
PROPS['C11']['proved_part'] += '; the JSON path of tools (dump_json/load_json/_call_json/_get_fileobj: which file object, mode, encoding, closing); Pair._eq / Lattice._eq (the structural equality behind "indistinguishable")'
PROPS['C19']['proved_part'] += '; the observables Context.objects / properties / bools (member labels of the bitset classes, rows of _intents)'
PROPS['C20']['units'] += ['lattices._annotate', 'lattices._init', 'contexts.intension', 'contexts.extension']      # the reduced labelling the drawing shows (C10 chain)
PROPS['C17']['units'] += [u for u in ('definitions.remove_empty_objects', 'definitions.remove_empty_properties', 'definitions.take', 'definitions.union_update',
                                       'definitions.intersection_update', 'tools.Unique.rsub', 'tools.maximal', 'contexts.relations') if u not in PROPS['C17']['units']]
PROPS['C12']['units'] += ['lemma.cxt.roundtrip', 'formats.cxt.Cxt.loadf.written']
PROPS['C12']['proved_part'] += ('; CHARACTER level for cxt: lemma.cxt.roundtrip / Cxt.loadf.written -- under the representability precondition (at least one object and property, labels '
                                'non-empty, without line breaks, not starting or ending with a str.isspace character) Cxt.loadf applied to the text Cxt.dumpf wrote returns the given '
                                'objects, properties and cells; text lemmas (strip / split / join / decimal / rows) proved in Lean over List Char (lemmas/Text.lean)')
PROPS['C12']['bounded_part'] = ('that CPython\'s str.strip/split/join/int/format/isspace, print and io.StringIO compute the List Char definitions of lemmas/Text.lean (validated: 1.3M instances incl. every '
                                'code point, and the Lean definitions evaluated against CPython); the characters of the other text formats (table, csv quoting, wiki-table, repr/literal_eval), '
                                'real files and codecs -- round trips and independent reference readers/writers over the stated scopes')
for _p in ('C13', 'C14'):
    PROPS[_p]['units'] += [u for u in ('definitions.__eq__.plain',) if u not in PROPS[_p]['units']]
# C15 names Lattice.join/meet among its observation points: the n-ary forms are the lub/glb of C07, hence label-level statements (seeded C15-J)
PROPS['C15']['units'] += [u for u in ('lattices.join', 'lattices.meet', 'bitsets.Meta.reduce_and', 'bitsets.Meta.reduce_or') if u not in PROPS['C15']['units']]
PROPS['C09']['units'] += [u for u in ('lemma.bits_subset',) if u not in PROPS['C09']['units']]      # used by lattices.upset_generalization (either spelling of "inside the target")
# character level of the table format and of the FIMI index rows (contracts/formats_chars_table.py, DESIGN 11.16)
PROPS['C12']['units'] += [u for u in ('lemma.table.roundtrip', 'formats.table.load_file.written', 'formats.table.dump_file.chars', 'lemma.fimi.roundtrip',
                                       'lemma.fimi.context_rows', 'formats.fimi.read_concepts_dat.written') if u not in PROPS['C12']['units']]
PROPS['C12']['proved_part'] += ('; CHARACTER level for the table format: lemma.table.roundtrip / table.load_file.written / table.dump_file.chars -- under REP (at least one object and '
                                'property, one row of cells per object, no label with a line break, "|", "#" or whitespace at either end, property labels non-empty) '
                                'Table.loads(Table.dumps(...)) is the given triple for every indent; FIMI index rows: the tuples read are the index lists written '
                                '(empty set = empty line); new text lemmas (ljust / partition / % on the fragment used / csv fields) proved in Lean (lemmas/Text.lean)')
PROPS['C12']['bounded_part'] = PROPS['C12']['bounded_part'].replace('the characters of the other text formats (table, csv quoting, ', 'the characters of the other text formats (csv quoting, ')
# character level of the csv format (contracts/formats_chars_csv.py, lemmas/TextCsv.lean, DESIGN 11.18)
PROPS['C12']['units'] += [u for u in ('lemma.csv.chars.roundtrip', 'formats.csv.Csv.loadf.written', 'formats.csv.Csv.dumpf.chars') if u not in PROPS['C12']['units']]
PROPS['C12']['proved_part'] += ('; CHARACTER level for csv: lemma.csv.chars.roundtrip / Csv.loadf.written / Csv.dumpf.chars -- the excel-dialect writer and the reader state machine '
                                'are defined in Lean over List Char and proved inverse for ALL rows of fields up to the field size limit (lemmas/TextCsv.lean: csv_roundtrip, csv_limit); '
                                'under REP (one row of cells per object, labels within csv.field_size_limit(), at least one object for auto-detection) Csv.loads(Csv.dumps(...)) is the given triple')
PROPS['C12']['bounded_part'] = PROPS['C12']['bounded_part'].replace('the characters of the other text formats (csv quoting, wiki-table, ', 'that the C implementation of the csv module computes the Lean reader/writer definitions in the excel dialect (validated: 590k comparisons); the characters of the other text formats (wiki-table, ')
# C12: level texts after the character-level work (11.13, 11.16, 11.18)
PROPS['C12'].update({
    'technique': ('contract-based deductive verification of the real loaders / dumpers (VCs from their ASTs over a TEXT theory, z3) composed with text lemmas proved in Lean over List Char '
                  '(strip / split / join / decimal / padding / the csv reader state machine); bounded stand-in (independent reference readers / writers) for files, codecs, python-literal texts '
                  'and the wiki-table output'),
    'level_text': ('String round trips of the cxt, table and csv formats and of the FIMI index rows are proved at CHARACTER level for every representable context (the exact '
                   'representability preconditions are part of the units and confirmed by replay), relative to the stated identification of CPython\'s str methods, print / io.StringIO and '
                   'the csv module with the List Char definitions of lemmas/Text.lean and lemmas/TextCsv.lean (validated by millions of comparisons, never counted as proved); layout at line '
                   'level, python-literal at structure level, format lookup / suffix inference and the plumbing are proved with texts opaque. Files with encodings, repr / ast.literal_eval, '
                   'the wiki-table reference reader and other csv dialects are bounded -- hence `other`, not `proof`.'),
    'level_note': ('Assumed: CPython str / csv / io functions compute the Lean definitions (selftest: CPython vs. a python copy of the definitions and vs. the Lean definitions themselves); '
                   'the hand transcription SMT <-> Lean of the lemma statements (lemmas/README.md). Not modelled: codecs, os.linesep on real files, repr / ast.literal_eval, '
                   'texts written by other programs, csv dialect arguments.'),
})
# bin()-based bitsets helpers proved (contracts/bitsets_bin.py, lemmas/BitsBin.lean, DESIGN 11.22): no longer assumed
_OLD_BS = "bin(x).count('1') = member count, indexes_optimized = indexes (both via bin()), the class registry."
_NEW_BS = ("the class registry; that CPython's bin / format / slicing / str.count compute the List Char definitions of lemmas/BitsBin.lean (validated, 2.7M instances) -- "
           "count() = number of members and indexes_optimized = indexes are proved from them (units bitsets.MemberBits.count, bitsets.integers.indexes_optimized).")
for _p in PROPS:
    PROPS[_p]['level_note'] = PROPS[_p]['level_note'].replace(_OLD_BS, _NEW_BS)
    if 'bitsets.MemberBits.members' in PROPS[_p]['units'] and 'bitsets.integers.indexes_optimized' not in PROPS[_p]['units']:
        PROPS[_p]['units'] += ['bitsets.integers.indexes_optimized']
    if 'bitsets.MemberBits.shortlex' in PROPS[_p]['units']:
        PROPS[_p]['units'] += [u for u in ('bitsets.MemberBits.count', 'lemma.bitsets.shortlex_key') if u not in PROPS[_p]['units']]
PROPS['C18']['units'] += [u for u in ('bitsets.MemberBits.count', 'lemma.bitsets.shortlex_key') if u not in PROPS['C18']['units']]
PROPS['C14']['units'] += [u for u in ('bitsets.MemberBits.count',) if u not in PROPS['C14']['units']]          # fill_ratio counts the true cells with count()
PROPS['C04']['units'] += [u for u in ('bitsets.MemberBits.bits', 'bitsets.MemberBits.count') if u not in PROPS['C04']['units']]      # _common.Concept.__str__ / n_objects
PROPS['C06']['bounded_part'] = 'replay with labels whose alphabetical order differs from their position'
PROPS['C06']['level_note'] = ('The key contract of bitsets is proved from the package source, including the member count (bitsets.MemberBits.count: bin(x).count("1") = number of '
                              'members, lemmas/BitsBin.lean count_one_bin; strictly monotone under strict inclusion: card_lt_of_ssubset; lemma.bitsets.shortlex_key); B14 (order of '
                              'naturals by the highest differing bit) is proved in Lean. Assumed: ' + _NEW_BS)
PROPS['C18']['level_note'] = ('powerset() is no longer assumed: every subset once and the complete shortlex order (sizes and the tie order among equal-size subsets) are proved from the '
                              'bitsets source; the bin()-based helpers (indexes_optimized, count) are proved as well (DESIGN 11.22), relative to the validated identification of '
                              'CPython\'s bin / slicing / str.count with the Lean definitions.')
# MutableSet.__isub__ (verified from the interpreter's own _collections_abc.py) and the lemma that ties `-=` to the element-wise removal (DESIGN 11.20)
PROPS['C13']['units'] += [u for u in ('stdlib.MutableSet.__isub__', 'lemma.discard_fold_present') if u not in PROPS['C13']['units']]
NOT_APPLICABLE = {}
